"""Program variants for checker validation (see sa/selftest.py)."""

VARIANTS: list[dict] = []


def V(id, prop, rule, file, old, new, expect='fire', edits=None):
    VARIANTS.append({'id': id, 'prop': prop, 'rule': rule, 'file': file,
                     'old': old, 'new': new, 'expect': expect,
                     'edits': edits})


SEL = 'pymap/selected.py'
STATE = 'pymap/imap/state.py'
SESS = 'pymap/backend/session.py'
DICTMBX = 'pymap/backend/dict/mailbox.py'

# ---------------------------------------------------------------- C01
V('c01-exists-before-expunge', 'C01', 'R1.1', SEL,
  '''        if not self._hide_expunged and expunged_uids:
            for uid in sorted(expunged_uids, reverse=True):
                yield ExpungeResponse(before.seqs_cache[uid])
        if new_uids:
            yield ExistsResponse(len(after.uids))
''', '''        if new_uids:
            yield ExistsResponse(len(after.uids))
        if not self._hide_expunged and expunged_uids:
            for uid in sorted(expunged_uids, reverse=True):
                yield ExpungeResponse(before.seqs_cache[uid])
''')
V('c01-drop-reverse', 'C01', 'R1.2', SEL,
  'sorted(expunged_uids, reverse=True)', 'sorted(expunged_uids)')
V('c01-after-seqs', 'C01', 'R1.2', SEL,
  'ExpungeResponse(before.seqs_cache[uid])',
  'ExpungeResponse(after.seqs_cache.get(uid, 1))')
V('c01-exists-before-len', 'C01', 'R1.3', SEL,
  'ExistsResponse(len(after.uids))', 'ExistsResponse(len(before.uids))')
V('c01-store-no-hide', 'C01', 'R1.4', STATE,
  '''        if not cmd.uid:
            self.selected.hide_expunged = True
        if cmd.silent:''', '''        if cmd.silent:''')
V('c01-search-hide-after', 'C01', 'R1.4', STATE,
  '''        if not cmd.uid:
            self.selected.hide_expunged = True
        messages, updates = await self.session.search_mailbox(
            self.selected, cmd.keys)
''', '''        messages, updates = await self.session.search_mailbox(
            self.selected, cmd.keys)
        if not cmd.uid:
            self.selected.hide_expunged = True
''')
V('c01-hide-inverted', 'C01', 'R1.4', STATE,
  '''        if not cmd.uid:
            self.selected.hide_expunged = True
        set_seen''', '''        if cmd.uid:
            self.selected.hide_expunged = True
        set_seen''')
V('c01-remove-not-pending', 'C01', 'R1.4', SEL,
  'self._messages._remove(expunged, self._hide_expunged)',
  'self._messages._remove(expunged, False)')
V('c01-fork-propagates', 'C01', 'R1.4', SEL,
  '''        if self._prev is not None:
            with_uid''', '''        copy._hide_expunged = self._hide_expunged
        if self._prev is not None:
            with_uid''')
V('c01-pending-lost', 'C01', 'R1.4', SEL,
  'for msg_uid in chain(uids, self._pending_remove):',
  'for msg_uid in uids:')
V('c01-store-unforked', 'C01', 'R1.5', STATE,
  '''            self._selected, untagged = selected.fork(cmd)
            response.add_untagged(*untagged)''',
  '''            _, untagged = selected.fork(cmd)
            self._selected = selected
            response.add_untagged(*untagged)''')
V('c01-untagged-dropped', 'C01', 'R1.5', STATE,
  '''            self._selected, untagged = selected.fork(cmd)
            response.add_untagged(*untagged)''',
  '''            self._selected, untagged = selected.fork(cmd)''')
V('c01-foreign-writer', 'C01', 'R1.5', STATE,
  '''        resp = ResponseOk(cmd.tag, cmd.command + b' completed.')
        return resp, updates

    async def do_copy''', '''        resp = ResponseOk(cmd.tag, cmd.command + b' completed.')
        self._selected = updates
        return resp, updates

    async def do_copy''')
V('c01-no-cache-rebuild', 'C01', 'R1.6', SEL,
  '''                self._sorted = sorted_uids = sorted(self._uids)
                self._seqs_cache = {uid: seq for seq, uid in
                                    enumerate(sorted_uids, 1)}''',
  '''                self._sorted = sorted(self._uids)''')
V('c01-enumerate-start', 'C01', 'R1.7', SEL,
  'enumerate(needs_reset, lowest_idx + 1)', 'enumerate(needs_reset, lowest_idx)')
V('c01-enumerate-zero', 'C01', 'R1.7', SEL,
  '''            return [(seq, uid) for seq, uid in enumerate(self._sorted, 1)
                    if seq in all_seqs]''',
  '''            return [(seq, uid) for seq, uid in enumerate(self._sorted)
                    if seq in all_seqs]''')
V('c01-merge-first', 'C01', 'R1.8', SESS,
  '''        mbx = await self._get_selected(selected)
        ret: list[tuple[int, MessageT]] = []
        for seq, cached_msg in selected.messages.get_all(sequence_set):''',
  '''        mbx = await self._get_selected(selected)
        await mbx.update_selected(selected)
        ret: list[tuple[int, MessageT]] = []
        for seq, cached_msg in selected.messages.get_all(sequence_set):''')
# twins
V('c01-twin-fork-locals', 'C01', 'R1.5', STATE,
  '''            self._selected, untagged = selected.fork(cmd)
            response.add_untagged(*untagged)''',
  '''            forked = selected.fork(cmd)
            self._selected = forked[0]
            response.add_untagged(*forked[1])''', expect='silent')
V('c01-twin-hide-expr', 'C01', 'R1.4', STATE,
  '''        if not cmd.uid:
            self.selected.hide_expunged = True
        set_seen''', '''        self.selected.hide_expunged = not cmd.uid
        set_seen''', expect='silent')
V('c01-twin-reversed', 'C01', 'R1.2', SEL,
  'sorted(expunged_uids, reverse=True)', 'reversed(sorted(expunged_uids))',
  expect='silent')

# ---------------------------------------------------------------- C02
V('c02-append-no-log', 'C02', 'R2.1', DICTMBX,
  '''            self._messages[new_uid] = message
            self._mod_sequences.update([new_uid])
            self._updated.set()''', '''            self._messages[new_uid] = message
            self._updated.set()''')
V('c02-delete-no-notify', 'C02', 'R2.1', DICTMBX,
  '''            self._mod_sequences.expunge(uids)
            self._updated.set()''', '''            self._mod_sequences.expunge(uids)''')
V('c02-copy-log-wrong-recv', 'C02', 'R2.1', DICTMBX,
  '''            new_msg = Message.copy(message, uid=dest_uid, recent=recent)
            destination._messages[dest_uid] = new_msg
            destination._mod_sequences.update([dest_uid])
            destination._updated.set()
        return dest_uid

    async def move''', '''            new_msg = Message.copy(message, uid=dest_uid, recent=recent)
            destination._messages[dest_uid] = new_msg
            self._mod_sequences.update([dest_uid])
            destination._updated.set()
        return dest_uid

    async def move''')
V('c02-move-expunge-as-update', 'C02', 'R2.1', DICTMBX,
  '''            self._mod_sequences.expunge([uid])
            self._updated.set()
        async with destination''', '''            self._mod_sequences.update([uid])
            self._updated.set()
        async with destination''')
V('c02-claim-no-log', 'C02', 'R2.1', DICTMBX,
  '''                uids.append(msg_uid)
        self._mod_sequences.update(uids)
        self._updated.set()''', '''                uids.append(msg_uid)
        if uids:
            self._updated.set()''')
V('c02-revert-fix', 'C02', 'R2.2', DICTMBX,
  '''        if not msg.expunged:
            self._mod_sequences.update([uid])
            self._updated.set()
        return msg''', '''        self._mod_sequences.update([uid])
        self._updated.set()
        return msg''')
V('c02-await-in-window', 'C02', 'R2.3', DICTMBX,
  '''        selected.mod_sequence = self._mod_sequences.highest
        if mod_sequence is None:''', '''        selected.mod_sequence = self._mod_sequences.highest
        await asyncio.sleep(0)
        if mod_sequence is None:''')
V('c02-return-unmerged', 'C02', 'R2.4', SESS,
  '''        return messages, await mbx.update_selected(selected)''',
  '''        return messages, selected''')
V('c02-load-updates-skips', 'C02', 'R2.4', SESS,
  '''            return await mbx.update_selected(selected)
        return selected''', '''            return selected
        return selected''')
V('c02-no-remove', 'C02', 'R2.5', SEL,
  '''        self._messages._update(messages)
        self._messages._remove(expunged, self._hide_expunged)''',
  '''        self._messages._update(messages)''')
V('c02-set-messages-no-expunged', 'C02', 'R2.5', SEL,
  '''        expunged = self._messages._uids - uids
        return self.add_updates(messages, expunged)''',
  '''        expunged = uids - self._messages._uids
        return self.add_updates(messages, expunged)''')
V('c02-maildir-filtered', 'C02', 'R2.6', 'pymap/backend/maildir/mailbox.py',
  '''        all_messages = [msg async for msg in self.messages()]
        selected.set_messages(all_messages)''',
  '''        all_messages = [msg async for msg in self.messages()
                        if not msg.recent]
        selected.set_messages(all_messages)''')
# twins
V('c02-twin-readlock-window', 'C02', 'R2.3', DICTMBX,
  '''        mod_sequence = selected.mod_sequence
        selected.mod_sequence = self._mod_sequences.highest
        if mod_sequence is None:
            all_messages = list(self._messages.values())
            selected.add_updates(all_messages, [])
        else:''', '''        mod_sequence = selected.mod_sequence
        selected.mod_sequence = self._mod_sequences.highest
        if mod_sequence is None:
            async with self.messages_lock.read_lock():
                all_messages = list(self._messages.values())
            selected.add_updates(all_messages, [])
        else:''', expect='silent')
V('c02-twin-helper', 'C02', 'R2.1', DICTMBX,
  '''            self._messages[new_uid] = message
            self._mod_sequences.update([new_uid])
            self._updated.set()
            return message''', '''            self._messages[new_uid] = message
            self._changed(new_uid)
            return message

    def _changed(self, uid: int) -> None:
        self._mod_sequences.update([uid])
        self._updated.set()''', expect='silent')
V('c02-twin-local-return', 'C02', 'R2.4', SESS,
  '''        return messages, await mbx.update_selected(selected)''',
  '''        merged = await mbx.update_selected(selected)
        return messages, merged''', expect='silent')

# ---------------------------------------------------------------- C05
IMAP = 'pymap/imap/__init__.py'
SELECTCMD = 'pymap/parsing/command/select.py'
V('c05-expunge-auth-class', 'C05', 'R5.1', SELECTCMD,
  'class ExpungeCommand(CommandSelect):', 'class ExpungeCommand(CommandAuth):')
V('c05-starttls-any', 'C05', 'R5.1', 'pymap/parsing/command/nonauth.py',
  'class StartTLSCommand(CommandNoArgs, CommandNonAuth):',
  'class StartTLSCommand(CommandNoArgs, CommandAny):',
  edits=[('pymap/parsing/command/nonauth.py',
          'class StartTLSCommand(CommandNoArgs, CommandNonAuth):',
          'class StartTLSCommand(CommandNoArgs, CommandAny):'),
         ('pymap/parsing/command/nonauth.py',
          'from . import CommandNonAuth, CommandNoArgs',
          'from . import CommandNonAuth, CommandNoArgs, CommandAny')])
V('c05-no-do-move', 'C05', 'R5.1', STATE,
  'async def do_move(self, cmd: MoveCommand)',
  'async def _do_move(self, cmd: MoveCommand)')
V('c05-gate-select-wrong-field', 'C05', 'R5.2', STATE,
  'elif not self._selected and isinstance(cmd, CommandSelect):',
  'elif not self._session and isinstance(cmd, CommandSelect):')
V('c05-gate-nonauth-dropped', 'C05', 'R5.2', STATE,
  '''        elif self._session and isinstance(cmd, CommandNonAuth):
            msg = cmd.command + b': Already authenticated.'
            return ResponseBad(cmd.tag, msg)
''', '')
V('c05-gate-auth-inverted', 'C05', 'R5.2', STATE,
  'elif not self._session and isinstance(cmd, CommandAuth):',
  'elif self._session and isinstance(cmd, CommandAuth):')
V('c05-revert-auth-fix', 'C05', 'R5.2', IMAP,
  '''                    if isinstance(cmd, AuthenticateCommand) \\
                            and not state.authenticated:''',
  '''                    if isinstance(cmd, AuthenticateCommand):''')
V('c05-auth-guard-inverted', 'C05', 'R5.2', IMAP,
  '''                    if isinstance(cmd, AuthenticateCommand) \\
                            and not state.authenticated:''',
  '''                    if isinstance(cmd, AuthenticateCommand) \\
                            and state.authenticated:''')
V('c05-select-clears-late', 'C05', 'R5.3', STATE,
  '''        self._selected = None
        mailbox, updates = await self.session.select_mailbox(
            cmd.mailbox, cmd.readonly)
''', '''        mailbox, updates = await self.session.select_mailbox(
            cmd.mailbox, cmd.readonly)
        self._selected = None
''')
V('c05-revert-close-fix', 'C05', 'R5.4', STATE,
  '''        selected = self.selected
        self._selected = None
        if not selected.readonly:
            await self.session.expunge_mailbox(selected)''',
  '''        await self.session.expunge_mailbox(self.selected)
        self._selected = None''')
V('c05-close-unconditional-expunge', 'C05', 'R5.4', STATE,
  '''        if not selected.readonly:
            await self.session.expunge_mailbox(selected)''',
  '''        await self.session.expunge_mailbox(selected)''')
V('c05-logout-no-bye', 'C05', 'R5.5', 'pymap/exceptions.py',
  '''        response = ResponseOk(tag, b'Logout successful.')
        response.add_untagged(ResponseBye(b'Logging out.'))
        return response''', '''        response = ResponseOk(tag, b'Logout successful.')
        return response''')
V('c05-tagged-first', 'C05', 'R5.5', 'pymap/parsing/response/__init__.py',
  '''    async def async_write(self, writer: WriteStream) -> None:
        for untagged in self._untagged:
            await untagged.async_write(writer)
        super().write(writer)''', '''    async def async_write(self, writer: WriteStream) -> None:
        super().write(writer)
        for untagged in self._untagged:
            await untagged.async_write(writer)''')
V('c05-refusal-deselects', 'C05', 'R5.6', STATE,
  '''        elif not self._session and isinstance(cmd, CommandAuth):
            msg''', '''        elif not self._session and isinstance(cmd, CommandAuth):
            self._selected = None
            msg''')
V('c05-starttls-sets-session', 'C05', 'R5.7', STATE,
  '''        self.auth = self.config.tls_auth
        return ResponseOk(cmd.tag, b'Ready to handshake.'), None''',
  '''        self.auth = self.config.tls_auth
        self._session = None
        return ResponseOk(cmd.tag, b'Ready to handshake.'), None''')
# twins
V('c05-twin-gate-reordered', 'C05', 'R5.2', STATE,
  '''        elif self._session and isinstance(cmd, CommandNonAuth):
            msg = cmd.command + b': Already authenticated.'
            return ResponseBad(cmd.tag, msg)
        elif not self._session and isinstance(cmd, CommandAuth):
            msg = cmd.command + b': Must authenticate first.'
            return ResponseBad(cmd.tag, msg)
''', '''        elif not self._session and isinstance(cmd, CommandAuth):
            msg = cmd.command + b': Must authenticate first.'
            return ResponseBad(cmd.tag, msg)
        elif self._session and isinstance(cmd, CommandNonAuth):
            msg = cmd.command + b': Already authenticated.'
            return ResponseBad(cmd.tag, msg)
''', expect='silent')
V('c05-twin-is-none', 'C05', 'R5.2', STATE,
  'elif not self._selected and isinstance(cmd, CommandSelect):',
  'elif isinstance(cmd, CommandSelect) and self._selected is None:',
  expect='silent')
V('c05-twin-close-finally', 'C05', 'R5.4', STATE,
  '''        selected = self.selected
        self._selected = None
        if not selected.readonly:
            await self.session.expunge_mailbox(selected)''',
  '''        selected = self.selected
        try:
            if not selected.readonly:
                await self.session.expunge_mailbox(selected)
        finally:
            self._selected = None''', expect='silent')

# ---------------------------------------------------------------- C12
V('c12-revert-move-fix', 'C12', 'R12.1', SESS,
  '''            -> tuple[CopyUid | None, SelectedMailbox]:
        if selected.readonly:
            raise MailboxReadOnly()
        mbx = await self._get_selected(selected)''',
  '''            -> tuple[CopyUid | None, SelectedMailbox]:
        mbx = await self._get_selected(selected)''')
V('c12-store-guard-dropped', 'C12', 'R12.1', SESS,
  '''        if selected.readonly:
            raise MailboxReadOnly()
        mbx = await self._get_selected(selected)
        permanent_flags''', '''        mbx = await self._get_selected(selected)
        permanent_flags''')
V('c12-expunge-guard-after', 'C12', 'R12.1', SESS,
  '''        if selected.readonly:
            raise MailboxReadOnly()
        mbx = await self._get_selected(selected)
        if uid_set is None:
            uid_set = SequenceSet.all(uid=True)
        expunge_uids = await mbx.find_deleted(uid_set, selected)
        await mbx.delete(expunge_uids)''',
  '''        mbx = await self._get_selected(selected)
        if uid_set is None:
            uid_set = SequenceSet.all(uid=True)
        expunge_uids = await mbx.find_deleted(uid_set, selected)
        await mbx.delete(expunge_uids)
        if selected.readonly:
            raise MailboxReadOnly()''')
V('c12-copy-dest-unguarded', 'C12', 'R12.1', SESS,
  '''        dest = await self._get_mailbox(mailbox, try_create=True)
        if dest.readonly:
            raise MailboxReadOnly(mailbox)
        dest_selected = self._pick_selected(selected, dest)
        uids: list[tuple[int, int]] = []
        for _, source_uid in selected.messages.get_uids(sequence_set):
            dest_uid = await mbx.copy(''',
  '''        dest = await self._get_mailbox(mailbox, try_create=True)
        dest_selected = self._pick_selected(selected, dest)
        uids: list[tuple[int, int]] = []
        for _, source_uid in selected.messages.get_uids(sequence_set):
            dest_uid = await mbx.copy(''')
V('c12-append-wrong-guard', 'C12', 'R12.1', SESS,
  '''        if mbx.readonly:
            raise MailboxReadOnly(name)
        dest_selected''', '''        if selected and selected.readonly:
            raise MailboxReadOnly(name)
        dest_selected''')
V('c12-set-seen-ignores-readonly', 'C12', 'R12.1', STATE,
  '''        set_seen = not self.selected.readonly and \\
            any(attr.set_seen for attr in cmd.attributes)''',
  '''        set_seen = any(attr.set_seen for attr in cmd.attributes)''')
V('c12-claim-unconditional', 'C12', 'R12.1', SESS,
  '''        if not selected.readonly:
            await mbx.claim_recent(selected)''',
  '''        await mbx.claim_recent(selected)''')
V('c12-examine-ignored', 'C12', 'R12.2', SESS,
  'selected = SelectedMailbox(mbx.mailbox_id, readonly or mbx.readonly,',
  'selected = SelectedMailbox(mbx.mailbox_id, mbx.readonly,')
V('c12-readonly-setter', 'C12', 'R12.5', SEL,
  '''    @property
    def messages(self) -> SynchronizedMessages:''', '''    @readonly.setter
    def readonly(self, readonly: bool) -> None:
        self._readonly = readonly

    @property
    def messages(self) -> SynchronizedMessages:''')
V('c12-close-expunges-ro', 'C12', 'R12.4', STATE,
  '''        if not selected.readonly:
            await self.session.expunge_mailbox(selected)''',
  '''        await self.session.expunge_mailbox(selected)''',
  edits=[(STATE, '''        if not selected.readonly:
            await self.session.expunge_mailbox(selected)''',
          '''        await self.session.expunge_mailbox(selected)'''),
         (SESS, '''        if selected.readonly:
            raise MailboxReadOnly()
        mbx = await self._get_selected(selected)
        if uid_set is None:''', '''        mbx = await self._get_selected(selected)
        if uid_set is None:''')])
# twins
V('c12-twin-guard-else', 'C12', 'R12.1', SESS,
  '''        if not selected.readonly:
            await mbx.claim_recent(selected)''',
  '''        if selected.readonly:
            pass
        else:
            await mbx.claim_recent(selected)''', expect='silent')
V('c12-twin-set-seen-local', 'C12', 'R12.1', STATE,
  '''        set_seen = not self.selected.readonly and \\
            any(attr.set_seen for attr in cmd.attributes)''',
  '''        wants_seen = any(attr.set_seen for attr in cmd.attributes)
        set_seen = wants_seen and not self.selected.readonly''',
  expect='silent')

# ---------------------------------------------------------------- C17
FLAGSPY = 'pymap/flags.py'
MAILDIRMBX = 'pymap/backend/maildir/mailbox.py'
V('c17-permanent-keeps-recent', 'C17', 'R17.1', FLAGSPY,
  '''    __slots__ = ['_defined']

    def __init__(self, defined: Iterable[Flag]) -> None:
        super().__init__()
        self._defined = frozenset(defined) - _recent_set''',
  '''    __slots__ = ['_defined']

    def __init__(self, defined: Iterable[Flag]) -> None:
        super().__init__()
        self._defined = frozenset(defined)''')
V('c17-session-update-unfiltered', 'C17', 'R17.1', FLAGSPY,
  'new_flags = op.apply(orig_set, self & flag_set)',
  'new_flags = op.apply(orig_set, frozenset(flag_set))')
V('c17-recent-true', 'C17', 'R17.2', SESS,
  '''                msg = await mbx.append(append_msg, recent=not dest_selected)''',
  '''                msg = await mbx.append(append_msg, recent=True)''')
V('c17-recent-not-negated', 'C17', 'R17.2', SESS,
  '''            dest_uid = await mbx.copy(source_uid, dest,
                                      recent=not dest_selected)''',
  '''            dest_uid = await mbx.copy(source_uid, dest,
                                      recent=bool(dest_selected))''')
V('c17-add-recent-unguarded', 'C17', 'R17.2', SESS,
  '''                msg = await mbx.append(append_msg, recent=not dest_selected)
                if dest_selected:
                    dest_selected.session_flags.add_recent(msg.uid)''',
  '''                msg = await mbx.append(append_msg, recent=not dest_selected)
                if selected:
                    selected.session_flags.add_recent(msg.uid)''')
V('c17-claim-no-clear', 'C17', 'R17.4', DICTMBX,
  '''            if msg.recent:
                msg.recent = False
                msg_uid = msg.uid''', '''            if msg.recent:
                msg_uid = msg.uid''')
V('c17-claim-sleep', 'C17', 'R17.4', DICTMBX,
  '''            if msg.recent:
                msg.recent = False
                msg_uid = msg.uid''', '''            if msg.recent:
                await asyncio.sleep(0)
                msg.recent = False
                msg_uid = msg.uid''')
V('c17-claim-clear-without-add', 'C17', 'R17.4', DICTMBX,
  '''                msg.recent = False
                msg_uid = msg.uid
                selected.session_flags.add_recent(msg_uid)''',
  '''                msg.recent = False
                msg_uid = msg.uid
                if msg_uid % 2:
                    selected.session_flags.add_recent(msg_uid)''')
V('c17-revert-pick-fix', 'C17', 'R17.5', SESS,
  '''        if selected and selected.mailbox_id == mbx.mailbox_id \\
                and not selected.readonly:''',
  '''        if selected and selected.mailbox_id == mbx.mailbox_id:''')
V('c17-any-selected-unfiltered', 'C17', 'R17.5', SEL,
  '''        for selected in self._set:
            if not selected.readonly:
                return selected
        return None''', '''        for selected in self._set:
            return selected
        return None''')
V('c17-select-count-source', 'C17', 'R17.6', STATE,
  'num_recent = updates.session_flags.recent', 'num_recent = mailbox.recent')
V('c17-revert-claim-fix', 'C17', 'R17.7', MAILDIRMBX,
  'keys = frozenset(self._maildir.claim_new())',
  'keys = self._maildir.claim_new()')
V('c17-copy-carries-recent', 'C17', 'R17.8', DICTMBX,
  '''                   thread_id=msg.thread_id, recent=recent,''',
  '''                   thread_id=msg.thread_id, recent=msg.recent,''')
# twins
V('c17-twin-claim-list', 'C17', 'R17.7', MAILDIRMBX,
  'keys = frozenset(self._maildir.claim_new())',
  'keys = set(self._maildir.claim_new())', expect='silent')
V('c17-twin-difference', 'C17', 'R17.1', FLAGSPY,
  '''        self._defined = frozenset(defined) - _recent_set
        self._flags''', '''        self._defined = frozenset(defined).difference(_recent_set)
        self._flags''', expect='silent')

# ---------------------------------------------------------------- C04
CODEPY = 'pymap/parsing/response/code.py'
V('c04-max-of-messages', 'C04', 'R4.1', DICTMBX,
  '''            self._max_uid = new_uid = self._max_uid + 1
            message = Message(new_uid, when,''',
  '''            self._max_uid = new_uid = max(self._messages, default=100) + 1
            message = Message(new_uid, when,''')
V('c04-increment-outside-lock', 'C04', 'R4.1', DICTMBX,
  '''        async with self.messages_lock.write_lock():
            self._max_uid = new_uid = self._max_uid + 1
            message = Message(new_uid, when,''',
  '''        self._max_uid = new_uid = self._max_uid + 1
        async with self.messages_lock.write_lock():
            message = Message(new_uid, when,''')
V('c04-copy-wrong-lock', 'C04', 'R4.1', DICTMBX,
  '''                return None
        async with destination.messages_lock.write_lock():
            destination._max_uid = dest_uid = destination._max_uid + 1
            new_msg = Message.copy(message, uid=dest_uid, recent=recent)
            destination._messages[dest_uid] = new_msg
            destination._mod_sequences.update([dest_uid])
            destination._updated.set()
        return dest_uid

    async def move''', '''                return None
        async with self.messages_lock.write_lock():
            destination._max_uid = dest_uid = destination._max_uid + 1
            new_msg = Message.copy(message, uid=dest_uid, recent=recent)
            destination._messages[dest_uid] = new_msg
            destination._mod_sequences.update([dest_uid])
            destination._updated.set()
        return dest_uid

    async def move''')
V('c04-wrong-key', 'C04', 'R4.1', DICTMBX,
  '''            self._messages[new_uid] = message
            self._mod_sequences.update([new_uid])''',
  '''            self._messages[len(self._messages) + 101] = message
            self._mod_sequences.update([new_uid])''')
V('c04-move-keeps-uid', 'C04', 'R4.1', DICTMBX,
  '''            destination._max_uid = dest_uid = destination._max_uid + 1
            new_msg = Message.copy(message, uid=dest_uid, recent=recent)
            destination._messages[dest_uid] = new_msg
            destination._mod_sequences.update([dest_uid])
            destination._updated.set()
        return dest_uid

    async def get''', '''            destination._max_uid = dest_uid = destination._max_uid + 1
            new_msg = Message.copy(message, recent=recent)
            destination._messages[dest_uid] = new_msg
            destination._mod_sequences.update([dest_uid])
            destination._updated.set()
        return dest_uid

    async def get''')
V('c04-maildir-no-increment', 'C04', 'R4.2', MAILDIRMBX,
  '''                fields = {'E': str(email_id), 'T': str(thread_id)}
                new_rec = Record(uidl.next_uid, fields, filename)
                uidl.next_uid += 1''',
  '''                fields = {'E': str(email_id), 'T': str(thread_id)}
                new_rec = Record(uidl.next_uid, fields, filename)''')
V('c04-maildir-with-read', 'C04', 'R4.2', MAILDIRMBX,
  '''            async with UidList.with_write(destination._path) as uidl:
                new_rec = Record(uidl.next_uid, record.fields, dest_filename)''',
  '''            async with UidList.with_read(destination._path) as uidl:
                new_rec = Record(uidl.next_uid, record.fields, dest_filename)''')
V('c04-maildir-no-set', 'C04', 'R4.2', MAILDIRMBX,
  '''            new_rec = Record(uidl.next_uid, rec.fields, new_filename)
            uidl.next_uid += 1
            uidl.set(new_rec)''',
  '''            new_rec = Record(uidl.next_uid, rec.fields, new_filename)
            uidl.next_uid += 1''')
V('c04-uidnext-off-by-one', 'C04', 'R4.3', DICTMBX,
  'next_uid = self._max_uid + 1', 'next_uid = self._max_uid')
V('c04-get-mailbox-no-reset', 'C04', 'R4.3', MAILDIRMBX,
  '''            self._cache[name] = mbx
        return await mbx.reset()''', '''            self._cache[name] = mbx
            return await mbx.reset()
        return mbx''')
V('c04-copyuid-swapped', 'C04', 'R4.4', SESS,
  '''                    dest_selected.session_flags.add_recent(dest_uid)
                uids.append((source_uid, dest_uid))
        if not uids:
            copy_uid: CopyUid | None = None
        else:
            copy_uid = CopyUid(dest.uid_validity, uids)
        return (copy_uid, await mbx.update_selected(selected))

    async def move_messages''',
  '''                    dest_selected.session_flags.add_recent(dest_uid)
                uids.append((dest_uid, source_uid))
        if not uids:
            copy_uid: CopyUid | None = None
        else:
            copy_uid = CopyUid(dest.uid_validity, uids)
        return (copy_uid, await mbx.update_selected(selected))

    async def move_messages''')
V('c04-copyuid-source-validity', 'C04', 'R4.4', SESS,
  '''            copy_uid = CopyUid(dest.uid_validity, uids)
        return (copy_uid, await mbx.update_selected(selected))

    async def update_flags''', '''            copy_uid = CopyUid(mbx.uid_validity, uids)
        return (copy_uid, await mbx.update_selected(selected))

    async def update_flags''')
V('c04-copyuid-order', 'C04', 'R4.4', CODEPY,
  '''            % (validity, bytes(source_uid_set), bytes(dest_uid_set))''',
  '''            % (validity, bytes(dest_uid_set), bytes(source_uid_set))''')
V('c04-appenduid-wrong-uids', 'C04', 'R4.4', SESS,
  '''                uids.append(msg.uid)
        except BaseException:''',
  '''                uids.append(len(uids) + 1)
        except BaseException:''')
# twins
V('c04-twin-augassign', 'C04', 'R4.1', DICTMBX,
  '''            self._max_uid = new_uid = self._max_uid + 1
            message = Message(new_uid, when,''',
  '''            self._max_uid += 1
            new_uid = self._max_uid
            message = Message(new_uid, when,''', expect='silent')

# ---------------------------------------------------------------- C20
CONC = 'pymap/concurrent.py'
MIO = 'pymap/backend/maildir/io.py'
V('c20-revert-asyncio', 'C20', 'R20.1', CONC,
  '''    async def _acquire_read(self) -> None:
        async with self._read_lock:
            if self._counter == 0:
                await self._write_lock.acquire()
            self._counter += 1
''', '''    async def _acquire_read(self) -> None:
        async with self._read_lock:
            self._counter += 1
            first = self._counter == 1
        if first:
            await self._write_lock.acquire()
''')
V('c20-count-before-acquire', 'C20', 'R20.2', CONC,
  '''        async with self._read_lock:
            if self._counter == 0:
                await self._write_lock.acquire()
            self._counter += 1
''', '''        async with self._read_lock:
            self._counter += 1
            if self._counter == 1:
                await self._write_lock.acquire()
''')
V('c20-threading-outside', 'C20', 'R20.1', CONC,
  '''    def _acquire_read(self) -> None:
        with self._read_lock:
            if self._counter == 0:
                self._write_lock.acquire()
            self._counter += 1
''', '''    def _acquire_read(self) -> None:
        with self._read_lock:
            first = self._counter == 0
            self._counter += 1
        if first:
            self._write_lock.acquire()
''')
V('c20-sleep-before-try', 'C20', 'R20.2', CONC,
  '''        await self._acquire_read()
        try:
            yield
        finally:
            await self._release_read()''', '''        await self._acquire_read()
        await asyncio.sleep(0)
        try:
            yield
        finally:
            await self._release_read()''')
V('c20-no-finally', 'C20', 'R20.2', CONC,
  '''        await self._acquire_read()
        try:
            yield
        finally:
            await self._release_read()''', '''        await self._acquire_read()
        yield
        await self._release_read()''')
V('c20-filelock-yield-unprotected', 'C20', 'R20.3', CONC,
  '''            if self._try_lock():
                try:
                    yield
                finally:
                    self._unlock()
                break''', '''            if self._try_lock():
                yield
                self._unlock()
                break''')
V('c20-filelock-open-w', 'C20', 'R20.4', CONC,
  "with open(self._path, 'x'):", "with open(self._path, 'w'):")
V('c20-filelock-ignore-trylock', 'C20', 'R20.4', CONC,
  '''        if self._check_lock() and self._try_lock():
            try:''', '''        if self._check_lock() or self._try_lock():
            try:''')
V('c20-bare-lock-call', 'C20', 'R20.5', DICTMBX,
  '''        async with self._set_lock.write_lock():
            self._subscribed[name] = subscribed''',
  '''        self._set_lock.write_lock()
        self._subscribed[name] = subscribed''')
V('c20-variants-disagree', 'C20', 'R20.6', CONC,
  '''    def _release_read(self) -> None:
        with self._read_lock:
            self._counter -= 1
            if self._counter == 0:
                self._write_lock.release()''',
  '''    def _release_read(self) -> None:
        with self._read_lock:
            self._counter -= 1
            if self._counter <= 1:
                self._write_lock.release()''')
# twin
V('c20-twin-inline', 'C20', 'R20.1', CONC,
  '''    @asynccontextmanager
    async def read_lock(self) -> AsyncIterator[None]:
        await self._acquire_read()
        try:
            yield
        finally:
            await self._release_read()''', '''    @asynccontextmanager
    async def read_lock(self) -> AsyncIterator[None]:
        async with self._read_lock:
            if self._counter == 0:
                await self._write_lock.acquire()
            self._counter += 1
        try:
            yield
        finally:
            await self._release_read()''', expect='silent')

# ---------------------------------------------------------------- C14
V('c14-sleep-in-window', 'C14', 'R14.1', DICTMBX,
  '''            self._mod_sequences.expunge([uid])
            self._updated.set()
        async with destination.messages_lock.write_lock():''',
  '''            self._mod_sequences.expunge([uid])
            self._updated.set()
        await asyncio.sleep(0)
        async with destination.messages_lock.write_lock():''')
V('c14-lock-becomes-contended', 'C14', 'R14.1', DICTMBX,
  '''        async with self.messages_lock.write_lock():
            for uid in uids:
                try:
                    del self._messages[uid]''',
  '''        async with self.messages_lock.write_lock():
            await asyncio.sleep(0)
            for uid in uids:
                try:
                    del self._messages[uid]''')
V('c14-consumer-suspends', 'C14', 'R14.1', DICTMBX,
  '''        async for msg in self.messages():
            exists += 1''', '''        async for msg in self.messages():
            await asyncio.sleep(0)
            exists += 1''')
V('c14-maildir-copy-delete', 'C14', 'R14.1', MAILDIRMBX,
  '''        os.rename(path, dest_path)
        return name''', '''        shutil.copyfile(path, dest_path)
        os.remove(path)
        return name''')
V('c14-revert-rollback', 'C14', 'R14.2', SESS,
  '''        except BaseException:
            # MULTIAPPEND is all-or-nothing, undo the messages already added.
            await mbx.delete(uids)
            raise''', '''        except BaseException:
            raise''')
V('c14-rollback-swallows', 'C14', 'R14.2', SESS,
  '''            await mbx.delete(uids)
            raise
        return (AppendUid''', '''            await mbx.delete(uids[:-1])
            pass
        return (AppendUid''')
V('c14-raise-after-mutation', 'C14', 'R14.3', SESS,
  '''        dest = await self._get_mailbox(mailbox, try_create=True)
        if dest.readonly:
            raise MailboxReadOnly(mailbox)
        dest_selected = self._pick_selected(selected, dest)
        uids: list[tuple[int, int]] = []
        for _, source_uid in selected.messages.get_uids(sequence_set):
            dest_uid = await mbx.copy(source_uid, dest,
                                      recent=not dest_selected)
            if dest_uid is not None:''',
  '''        dest = await self._get_mailbox(mailbox, try_create=True)
        dest_selected = self._pick_selected(selected, dest)
        uids: list[tuple[int, int]] = []
        for _, source_uid in selected.messages.get_uids(sequence_set):
            dest_uid = await mbx.copy(source_uid, dest,
                                      recent=not dest_selected)
            if dest.readonly:
                raise MailboxReadOnly(mailbox)
            if dest_uid is not None:''')
# twins
V('c14-twin-insert-first', 'C14', 'R14.1', DICTMBX,
  '''        async with self.messages_lock.write_lock():
            try:
                message = self._messages.pop(uid)
            except KeyError:
                return None
            self._mod_sequences.expunge([uid])
            self._updated.set()
        async with destination.messages_lock.write_lock():
            destination._max_uid = dest_uid = destination._max_uid + 1
            new_msg = Message.copy(message, uid=dest_uid, recent=recent)
            destination._messages[dest_uid] = new_msg
            destination._mod_sequences.update([dest_uid])
            destination._updated.set()
        return dest_uid''',
  '''        async with self.messages_lock.read_lock():
            try:
                message = self._messages[uid]
            except KeyError:
                return None
        async with destination.messages_lock.write_lock():
            destination._max_uid = dest_uid = destination._max_uid + 1
            new_msg = Message.copy(message, uid=dest_uid, recent=recent)
            destination._messages[dest_uid] = new_msg
            destination._mod_sequences.update([dest_uid])
            destination._updated.set()
        await asyncio.sleep(0)
        async with self.messages_lock.write_lock():
            if self._messages.pop(uid, None) is not None:
                self._mod_sequences.expunge([uid])
                self._updated.set()
        return dest_uid''', expect='silent')

# ---------------------------------------------------------------- C16
V('c16-revert-predicate', 'C16', 'R16.1', DICTMBX,
  '''            if selected.mod_sequence == self._mod_sequences.highest:
                await either_event.wait()''',
  '''            await either_event.wait()''')
V('c16-predicate-before-arming', 'C16', 'R16.1', DICTMBX,
  '''            either_event = wait_on.or_event(self._updated)
            if selected.mod_sequence == self._mod_sequences.highest:
                await either_event.wait()''',
  '''            if selected.mod_sequence == self._mod_sequences.highest:
                either_event = wait_on.or_event(self._updated)
                await either_event.wait()''')
V('c16-sleep-before-wait', 'C16', 'R16.1', DICTMBX,
  '''            if selected.mod_sequence == self._mod_sequences.highest:
                await either_event.wait()''',
  '''            if selected.mod_sequence == self._mod_sequences.highest:
                await asyncio.sleep(0)
                await either_event.wait()''')
V('c16-update-no-notify', 'C16', 'R16.2', DICTMBX,
  '''        if not msg.expunged:
            self._mod_sequences.update([uid])
            self._updated.set()''', '''        if not msg.expunged:
            self._mod_sequences.update([uid])''')
V('c16-done-set-not-finally', 'C16', 'R16.3', IMAP,
  '''        try:
            ok = await done_task
        except Exception as exc:
            done_exc = exc
        finally:
            done.set()''', '''        try:
            ok = await done_task
            done.set()
        except Exception as exc:
            done_exc = exc''')
V('c16-handle-updates-no-event', 'C16', 'R16.3', STATE,
  '''        selected = await self.session.check_mailbox(
            self.selected, wait_on=done)''',
  '''        selected = await self.session.check_mailbox(
            self.selected)''')
V('c16-not-done-ok', 'C16', 'R16.3', IMAP,
  '''        elif not ok:
            return ResponseBad(cmd.tag, b'Expected "DONE".')
        else:
            return response''', '''        else:
            return response''')
V('c16-maildir-infinite-wait', 'C16', 'R16.4', MAILDIRMBX,
  'await wait_on.wait(timeout=1.0)', 'await wait_on.wait(timeout=None)')
# twins
V('c16-twin-neq-form', 'C16', 'R16.1', DICTMBX,
  '''            if selected.mod_sequence == self._mod_sequences.highest:
                await either_event.wait()''',
  '''            fresh = selected.mod_sequence != self._mod_sequences.highest
            if not fresh:
                await either_event.wait()''', expect='silent')
V('c16-twin-named-timeout', 'C16', 'R16.4', MAILDIRMBX,
  'await wait_on.wait(timeout=1.0)', 'await wait_on.wait(timeout=_POLL)',
  expect='silent',
  edits=[(MAILDIRMBX, 'await wait_on.wait(timeout=1.0)',
          'await wait_on.wait(timeout=_POLL)'),
         (MAILDIRMBX, "__all__ = ['Maildir', 'Message', 'MailboxData', 'MailboxSet']",
          "__all__ = ['Maildir', 'Message', 'MailboxData', 'MailboxSet']\n\n_POLL = 1.0")])

# ---------------------------------------------------------------- C15
UIDLIST = 'pymap/backend/maildir/uidlist.py'
SUBS = 'pymap/backend/maildir/subscriptions.py'
V('c15-revert-tmpdir', 'C15', 'R15.1', MIO,
  '''        with NamedTemporaryFile('w', dir=os.path.dirname(file_path),
                                delete=False) as tmp:''',
  '''        with NamedTemporaryFile('w', delete=False) as tmp:''')
V('c15-write-in-place', 'C15', 'R15.1', MIO,
  '''        with NamedTemporaryFile('w', dir=os.path.dirname(file_path),
                                delete=False) as tmp:
            self.write(tmp)
        os.rename(tmp.name, file_path)''',
  '''        with open(file_path, 'w') as out:
            self.write(out)''')
V('c15-subs-direct-write', 'C15', 'R15.1', SUBS,
  '''    def write(self, fp: IO[str]) -> None:
        for sub in self._subscribed:
            fp.write(sub + '\\r\\n')''',
  '''    def write(self, fp: IO[str]) -> None:
        for sub in self._subscribed:
            fp.write(sub + '\\r\\n')

    def save_now(self) -> None:
        with open(self.get_file(self.path), 'w') as fp:
            self.write(fp)''')
V('c15-set-under-read', 'C15', 'R15.2', MAILDIRMBX,
  '''        async with Subscriptions.with_write(self._path) as subs:''',
  '''        async with Subscriptions.with_read(self._path) as subs:''')
V('c15-cleanup-under-read', 'C15', 'R15.2', MAILDIRMBX,
  '''        keys = await self._get_keys()
        async with UidList.with_write(self._path) as uidl:
            for rec in list(uidl.records):''',
  '''        keys = await self._get_keys()
        async with UidList.with_read(self._path) as uidl:
            for rec in list(uidl.records):''')
V('c15-remove-no-touch', 'C15', 'R15.3', SUBS,
  '''        self._subscribed.pop(folder, None)
        self.touch()''', '''        self._subscribed.pop(folder, None)''')
V('c15-uidlist-set-no-touch', 'C15', 'R15.3', UIDLIST,
  '''        self._records[rec.uid] = rec
        self.touch()''', '''        self._records[rec.uid] = rec''')
V('c15-index-before-file', 'C15', 'R15.4', MAILDIRMBX,
  '''        async with self.messages_lock.write_lock():
            maildir_msg = Message.to_maildir(append_msg, recent,
                                             self.maildir_flags)
            key = maildir.add(maildir_msg)
            filename = key + ':' + maildir_msg.get_info()
        try:
            async with UidList.with_write(self._path) as uidl:
                fields = {'E': str(email_id), 'T': str(thread_id)}
                new_rec = Record(uidl.next_uid, fields, filename)
                uidl.next_uid += 1
                uidl.set(new_rec)
        except BaseException:
            # The message never got a UID, do not leave its file behind.
            async with self.messages_lock.write_lock():
                maildir.discard(key)
            raise''',
  '''        maildir_msg = Message.to_maildir(append_msg, recent,
                                         self.maildir_flags)
        async with UidList.with_write(self._path) as uidl:
            fields = {'E': str(email_id), 'T': str(thread_id)}
            new_rec = Record(uidl.next_uid, fields, 'pending')
            uidl.next_uid += 1
            uidl.set(new_rec)
        async with self.messages_lock.write_lock():
            key = maildir.add(maildir_msg)
            filename = key + ':' + maildir_msg.get_info()''')
V('c15-return-inside-block', 'C15', 'R15.4', MAILDIRMBX,
  '''                new_rec = Record(uidl.next_uid, record.fields, dest_filename)
                uidl.next_uid += 1
                uidl.set(new_rec)''',
  '''                new_rec = Record(uidl.next_uid, record.fields, dest_filename)
                uidl.next_uid += 1
                uidl.set(new_rec)
                return new_rec.uid''')
V('c15-flag-copy-delete', 'C15', 'R15.5', MAILDIRMBX,
  '''            os.rename(old_path, new_path)
            self._update(key, new_subpath)''',
  '''            shutil.copyfile(old_path, new_path)
            os.remove(old_path)
            self._update(key, new_subpath)''')
V('c15-revert-lock-release', 'C15', 'R15.6', MIO,
  '''        try:
            self._exists = cls.file_exists(path)
            self._obj = obj = cls.file_read(path)
        except BaseException:
            await self._release_lock()
            raise''', '''        self._exists = cls.file_exists(path)
        self._obj = obj = cls.file_read(path)''')
# twins
V('c15-twin-finally-flag', 'C15', 'R15.6', MIO,
  '''        try:
            self._exists = cls.file_exists(path)
            self._obj = obj = cls.file_read(path)
        except BaseException:
            await self._release_lock()
            raise
        obj._watched = True
        return obj''', '''        entered = False
        try:
            self._exists = cls.file_exists(path)
            self._obj = obj = cls.file_read(path)
            obj._watched = True
            entered = True
            return obj
        finally:
            if not entered:
                await self._release_lock()''', expect='silent')
V('c15-twin-mkstemp', 'C15', 'R15.1', MIO,
  '''        with NamedTemporaryFile('w', dir=os.path.dirname(file_path),
                                delete=False) as tmp:''',
  '''        target_dir = os.path.dirname(file_path)
        with NamedTemporaryFile('w', dir=target_dir, delete=False) as tmp:''',
  expect='silent')

# ---------------------------------------------------------------- C09
DICTINIT = 'pymap/backend/dict/__init__.py'
MDINIT = 'pymap/backend/maildir/__init__.py'
SIEVEM = 'pymap/sieve/manage/__init__.py'
USERPY = 'pymap/user.py'
V('c09-sieve-state-before-login', 'C09', 'R9.1', SIEVEM,
  '''        if not self._offer_starttls:
            return Response(Condition.NO, text='Bad command.')''',
  '''        if not self._offer_starttls:
            self._state = None
            return Response(Condition.NO, text='Bad command.')''')
V('c09-no-authorize', 'C09', 'R9.2', STATE,
  '''        authorized = await self.login.authorize(authenticated, creds.authzid)
        return await stack.enter_async_context(authorized.new_session())''',
  '''        return await stack.enter_async_context(authenticated.new_session())''')
V('c09-authorize-authcid', 'C09', 'R9.2', STATE,
  'await self.login.authorize(authenticated, creds.authzid)',
  'await self.login.authorize(authenticated, creds.authcid)')
V('c09-dict-no-check', 'C09', 'R9.3', DICTINIT,
  '''        if not await self._passwords.check_password(user, credentials):
            raise InvalidAuth()
        roles |= user.roles''', '''        roles |= user.roles''')
V('c09-maildir-check-inverted', 'C09', 'R9.3', MDINIT,
  '''        if not await self._passwords.check_password(user, credentials):
            raise InvalidAuth()
        return identity''',
  '''        if await self._passwords.check_password(user, credentials):
            raise InvalidAuth()
        return identity''')
V('c09-unknown-user-returns', 'C09', 'R9.3', DICTINIT,
  '''        except UserNotFound:
            await asyncio.sleep(self.config.invalid_user_sleep)
            user = UserMetadata(self.config, authcid)''',
  '''        except UserNotFound:
            await asyncio.sleep(self.config.invalid_user_sleep)
            return identity''')
V('c09-verify-skipped', 'C09', 'R9.3', USERPY,
  '''        return credentials.verify(identity)''',
  '''        return credentials.verify(identity) or identity.password is None''')
V('c09-compare-secret-none-true', 'C09', 'R9.3', USERPY,
  '''            return hash_context.verify(prepared, prepare(password))
        return False''', '''            return hash_context.verify(prepared, prepare(password))
        return True''')
V('c09-authorize-or', 'C09', 'R9.4', DICTINIT,
  "if authcid != authzid and 'admin' not in roles:",
  "if authcid != authzid or 'admin' not in roles:")
V('c09-authorize-no-role', 'C09', 'R9.4', MDINIT,
  "if authcid != authzid and roles.isdisjoint({'sudo', 'admin'}):",
  "if authcid != authzid and not roles:")
V('c09-authorize-dropped', 'C09', 'R9.4', DICTINIT,
  '''        if authcid != authzid and 'admin' not in roles:
            raise AuthorizationFailure()
''', '')
V('c09-logindisabled-late', 'C09', 'R9.5', STATE,
  '''        if b'LOGINDISABLED' in self.capability:
            raise NotSupportedError('LOGIN is disabled.')
        creds = PlainCredentials(
            cmd.userid.decode('utf-8', 'surrogateescape'),
            cmd.password.decode('utf-8', 'surrogateescape'))
        return await self.do_authenticate(cmd, creds), None''',
  '''        creds = PlainCredentials(
            cmd.userid.decode('utf-8', 'surrogateescape'),
            cmd.password.decode('utf-8', 'surrogateescape'))
        ret = await self.do_authenticate(cmd, creds), None
        if b'LOGINDISABLED' in self.capability:
            raise NotSupportedError('LOGIN is disabled.')
        return ret''')
V('c09-capability-auth-write', 'C09', 'R9.6', STATE,
  '''        response = ResponseOk(cmd.tag, b'Capabilities listed.')
        response.add_untagged''', '''        self.auth = self.config.tls_auth
        response = ResponseOk(cmd.tag, b'Capabilities listed.')
        response.add_untagged''')
V('c09-greeting-tls-auth-remote', 'C09', 'R9.6', STATE,
  '''        elif sock_info.from_localhost:
            self.auth = self.config.tls_auth''',
  '''        else:
            self.auth = self.config.tls_auth''')
V('c09-revert-auth-gate', 'C09', 'R9.8', IMAP,
  '''                    if isinstance(cmd, AuthenticateCommand) \\
                            and not state.authenticated:''',
  '''                    if isinstance(cmd, AuthenticateCommand):''')
# twin
V('c09-twin-authorize-nested', 'C09', 'R9.4', DICTINIT,
  "if authcid != authzid and 'admin' not in roles:",
  "if not (authcid == authzid or 'admin' in roles):", expect='silent')

# ---------------------------------------------------------------- C19
SSTATE = 'pymap/sieve/manage/state.py'
DFILTER = 'pymap/backend/dict/filter.py'
V('c19-putscript-before-gate', 'C19', 'R19.1', SIEVEM,
  '''                    elif self._state is None:
                        if isinstance(cmd, AuthenticateCommand):''',
  '''                    elif isinstance(cmd, UnauthenticateCommand):
                        resp = await self._do_unauthenticate()
                    elif self._state is None:
                        if isinstance(cmd, AuthenticateCommand):''')
V('c19-state-run-unauth', 'C19', 'R19.1', SIEVEM,
  '''                        else:
                            resp = Response(Condition.NO, text='Bad command.')
                    else:''', '''                        else:
                            resp = await self._state.run(cmd)
                    else:''')
V('c19-gate-inverted', 'C19', 'R19.1', SIEVEM,
  '                    elif self._state is None:',
  '                    elif self._state is not None:')
V('c19-rename-not-dispatched', 'C19', 'R19.3', SSTATE,
  '''            elif isinstance(cmd, RenameScriptCommand):
                return await self._do_rename_script(cmd)
''', '')
V('c19-delete-before-active-test', 'C19', 'R19.4', DFILTER,
  '''        if name not in self._filters:
            raise KeyError(name)
        elif name == self._active:
            raise ValueError(name)
        del self._filters[name]''',
  '''        if name not in self._filters:
            raise KeyError(name)
        del self._filters[name]
        if name == self._active:
            raise ValueError(name)''')
V('c19-delete-no-active-test', 'C19', 'R19.4', DFILTER,
  '''        elif name == self._active:
            raise ValueError(name)
        del self._filters[name]''', '''        del self._filters[name]''')
V('c19-rename-drops-active', 'C19', 'R19.4', DFILTER,
  '''        if self._active == before_name:
            self._active = after_name''', '''        if self._active == before_name:
            self._active = None''')
V('c19-put-strips', 'C19', 'R19.5', DFILTER,
  'self._filters[name] = value', 'self._filters[name] = value.strip()')
V('c19-getscript-decoded', 'C19', 'R19.5', 'pymap/sieve/manage/response.py',
  'data_str = LiteralString(self.script_data)',
  'data_str = String.build(self.script_data)')
V('c19-cache-by-demo-user', 'C19', 'R19.6', DICTINIT,
  'config.set_cache[identity] = (mailbox_set, filter_set)',
  'config.set_cache[config.demo_user] = (mailbox_set, filter_set)')
# twins
V('c19-twin-gate-flipped', 'C19', 'R19.1', SIEVEM,
  '''                    elif self._state is None:
                        if isinstance(cmd, AuthenticateCommand):
                            resp = await self._do_authenticate(cmd)
                        elif isinstance(cmd, StartTLSCommand):
                            resp = await self._do_starttls()
                        else:
                            resp = Response(Condition.NO, text='Bad command.')
                    else:
                        if isinstance(cmd, UnauthenticateCommand):
                            resp = await self._do_unauthenticate()
                        else:
                            resp = await self._state.run(cmd)''',
  '''                    elif self._state is not None:
                        if isinstance(cmd, UnauthenticateCommand):
                            resp = await self._do_unauthenticate()
                        else:
                            resp = await self._state.run(cmd)
                    else:
                        if isinstance(cmd, AuthenticateCommand):
                            resp = await self._do_authenticate(cmd)
                        elif isinstance(cmd, StartTLSCommand):
                            resp = await self._do_starttls()
                        else:
                            resp = Response(Condition.NO, text='Bad command.')''',
  expect='silent')

# ---------------------------------------------------------------- C13
SEARCHPY = 'pymap/search.py'
SKEYPY = 'pymap/parsing/specials/searchkey.py'
V('c13-smaller-not-dispatched', 'C13', 'R13.1', SEARCHPY,
  '''        elif key_name == b'SMALLER':
            return SizeSearchCriteria(key.filter_int, '<', params)
''', '')
V('c13-parser-new-key', 'C13', 'R13.1', SKEYPY,
  "b'UNFLAGGED', b'UNSEEN', b'DRAFT', b'UNDRAFT'):",
  "b'UNFLAGGED', b'UNSEEN', b'DRAFT', b'UNDRAFT', b'UNRECENT'):")
V('c13-unseen-polarity', 'C13', 'R13.2', SEARCHPY,
  '''        elif key_name == b'UNSEEN':
            return HasFlagSearchCriteria(Seen, False, params)''',
  '''        elif key_name == b'UNSEEN':
            return HasFlagSearchCriteria(Seen, True, params)''')
V('c13-old-wrong-flag', 'C13', 'R13.2', SEARCHPY,
  '''        elif key_name == b'OLD':
            return HasFlagSearchCriteria(Recent, False, params)''',
  '''        elif key_name == b'OLD':
            return HasFlagSearchCriteria(Seen, True, params)''')
V('c13-since-gt', 'C13', 'R13.2', SEARCHPY,
  "return DateSearchCriteria(key.filter_datetime, '>=', params)",
  "return DateSearchCriteria(key.filter_datetime, '>', params)")
V('c13-senton-internal', 'C13', 'R13.2', SEARCHPY,
  "return HeaderDateSearchCriteria(key.filter_datetime, '=', params)",
  "return DateSearchCriteria(key.filter_datetime, '=', params)")
V('c13-before-lte', 'C13', 'R13.2', SEARCHPY,
  '''        if self.op == '<':  # BEFORE
            return msg_date < self.when''',
  '''        if self.op == '<':  # BEFORE
            return msg_date <= self.when''')
V('c13-larger-swapped', 'C13', 'R13.2', SEARCHPY,
  '''        elif self.op == '>':
            return size > self.size''', '''        elif self.op == '>':
            return self.size > size''')
V('c13-new-ignores-seen', 'C13', 'R13.2', SEARCHPY,
  'return Recent in flags and Seen not in flags', 'return Recent in flags')
V('c13-hasflag-table', 'C13', 'R13.2', SEARCHPY,
  'return (has_flag and expected) or (not expected and not has_flag)',
  'return (has_flag and expected) or (not expected)')
V('c13-any-instead-of-all', 'C13', 'R13.3', SEARCHPY,
  '''        return all(crit.matches(msg_seq, msg, loaded_msg)
                   for crit in self.all_criteria)''',
  '''        return any(crit.matches(msg_seq, msg, loaded_msg)
                   for crit in self.all_criteria)''')
V('c13-or-as-and', 'C13', 'R13.3', SEARCHPY,
  '''        return (self.left.matches(msg_seq, msg, loaded_msg)
                or self.right.matches(msg_seq, msg, loaded_msg))''',
  '''        return (self.left.matches(msg_seq, msg, loaded_msg)
                and self.right.matches(msg_seq, msg, loaded_msg))''')
V('c13-not-dropped', 'C13', 'R13.3', SEARCHPY,
  'return not self.key.matches(msg_seq, msg, loaded_msg)',
  'return self.key.matches(msg_seq, msg, loaded_msg)')
V('c13-larger-metadata', 'C13', 'R13.4', SKEYPY,
  "elif key_name in (b'BODY', b'TEXT', b'LARGER', b'SMALLER'):",
  "elif key_name in (b'BODY', b'TEXT', b'SMALLER'):")
V('c13-header-requirement-dropped', 'C13', 'R13.4', SKEYPY,
  "b'CC', b'FROM', b'SUBJECT', b'TO', b'HEADER'):",
  "b'CC', b'FROM', b'SUBJECT', b'TO'):")
V('c13-prefilter-constant', 'C13', 'R13.5', SEARCHPY,
  '''        except StopIteration:
            return SequenceSet.all()
        else:
            return seqset_crit.seq_set''', '''        except StopIteration:
            return SequenceSet.all()
        else:
            return SequenceSet.build([1])''')
V('c13-report-seq-under-uid', 'C13', 'R13.6', STATE,
  '''            if cmd.uid:
                msg_ids.append(msg.uid)
            else:
                msg_ids.append(msg_seq)''', '''            if cmd.uid:
                msg_ids.append(msg_seq)
            else:
                msg_ids.append(msg_seq)''')
# twins
V('c13-twin-ifexp', 'C13', 'R13.6', STATE,
  '''            if cmd.uid:
                msg_ids.append(msg.uid)
            else:
                msg_ids.append(msg_seq)''',
  '''            msg_ids.append(msg.uid if cmd.uid else msg_seq)''',
  expect='silent')
V('c13-twin-all-loop', 'C13', 'R13.3', SEARCHPY,
  '''        return all(crit.matches(msg_seq, msg, loaded_msg)
                   for crit in self.all_criteria)''',
  '''        for crit in self.all_criteria:
            if not crit.matches(msg_seq, msg, loaded_msg):
                return False
        return True''', expect='silent')

# ---------------------------------------------------------------- C10
FATTR = 'pymap/parsing/specials/fetchattr.py'
BMBX = 'pymap/backend/mailbox.py'
V('c10-add-delete-swapped', 'C10', 'R10.1', FLAGSPY,
  '''        if self == FlagOp.ADD:
            return frozenset(flag_set | operand)
        elif self == FlagOp.DELETE:
            return frozenset(flag_set - operand)''',
  '''        if self == FlagOp.ADD:
            return frozenset(flag_set - operand)
        elif self == FlagOp.DELETE:
            return frozenset(flag_set | operand)''')
V('c10-replace-unions', 'C10', 'R10.1', FLAGSPY,
  '''        else:  # op == FlagOp.REPLACE
            return frozenset(operand)''',
  '''        else:  # op == FlagOp.REPLACE
            return frozenset(flag_set | operand)''')
V('c10-plus-replace', 'C10', 'R10.1', SELECTCMD,
  "_modes = {b'': FlagOp.REPLACE, b'+': FlagOp.ADD, b'-': FlagOp.DELETE}",
  "_modes = {b'': FlagOp.REPLACE, b'+': FlagOp.REPLACE, b'-': FlagOp.DELETE}")
V('c10-unfiltered-flags', 'C10', 'R10.2', SESS,
  'permanent_flags = selected.permanent_flags & flag_set',
  'permanent_flags = flag_set')
V('c10-iterate-all', 'C10', 'R10.3', SESS,
  '''        messages: list[tuple[int, MessageT]] = []
        for seq, cached_msg in selected.messages.get_all(sequence_set):''',
  '''        messages: list[tuple[int, MessageT]] = []
        for seq, cached_msg in selected.messages.get_all(SequenceSet.all()):''')
V('c10-expunge-no-find-deleted', 'C10', 'R10.4', SESS,
  '''        expunge_uids = await mbx.find_deleted(uid_set, selected)
        await mbx.delete(expunge_uids)''',
  '''        expunge_uids = [uid for _, uid in
                        selected.messages.get_uids(uid_set)]
        await mbx.delete(expunge_uids)''')
V('c10-find-deleted-no-filter', 'C10', 'R10.4', BMBX,
  '''        return [msg.uid async for _, msg in self.find(seq_set, selected)
                if Deleted in msg.get_flags(session_flags)]''',
  '''        return [msg.uid async for _, msg in self.find(seq_set, selected)]''')
V('c10-uid-expunge-ignores-set', 'C10', 'R10.4', SESS,
  '''        if uid_set is None:
            uid_set = SequenceSet.all(uid=True)''',
  '''        uid_set = SequenceSet.all(uid=True)''')
V('c10-copy-drops-flags', 'C10', 'R10.5', DICTMBX,
  '''        return cls(uid, msg.internal_date, msg.permanent_flags,
                   expunged=expunged, email_id=msg.email_id,''',
  '''        return cls(uid, msg.internal_date, frozenset(),
                   expunged=expunged, email_id=msg.email_id,''')
V('c10-copy-new-date', 'C10', 'R10.5', DICTMBX,
  '''        return cls(uid, msg.internal_date, msg.permanent_flags,''',
  '''        return cls(uid, datetime.now(), msg.permanent_flags,''')
V('c10-append-ignores-flags', 'C10', 'R10.5', DICTMBX,
  '''            message = Message(new_uid, when, append_msg.flag_set,''',
  '''            message = Message(new_uid, when, frozenset(),''')
V('c10-peek-sets-seen', 'C10', 'R10.6', FATTR,
  '''        if self.value == b'BODY' and self.section:
            return True''', '''        if self.value in (b'BODY', b'BODY.PEEK') and self.section:
            return True''')
V('c10-rfc822-header-sets-seen', 'C10', 'R10.6', FATTR,
  "elif self.value in (b'RFC822', b'RFC822.TEXT'):",
  "elif self.value in (b'RFC822', b'RFC822.TEXT', b'RFC822.HEADER'):")
V('c10-binary-no-seen', 'C10', 'R10.6', FATTR,
  '''        elif self.value == b'BINARY':
            return True
''', '')
V('c10-fetch-replaces-flags', 'C10', 'R10.6', SESS,
  'frozenset({Seen}), FlagOp.ADD)', 'frozenset({Seen}), FlagOp.REPLACE)')
V('c10-star-uid-vs-exists', 'C10', 'R10.7', SEL,
  '''        if seq_set.uid:
            all_uids = seq_set.flatten(self.max_uid) & self._uids
            return [(seq, uid) for seq, uid in enumerate(self._sorted, 1)
                    if uid in all_uids]''',
  '''        if seq_set.uid:
            all_uids = seq_set.flatten(self.exists) & self._uids
            return [(seq, uid) for seq, uid in enumerate(self._sorted, 1)
                    if uid in all_uids]''')
V('c10-move-diverges', 'C10', 'R10.8', SESS,
  '''            dest_uid = await mbx.move(source_uid, dest,
                                      recent=not dest_selected)
            if dest_uid is not None:
                if dest_selected:
                    dest_selected.session_flags.add_recent(dest_uid)
                uids.append((source_uid, dest_uid))''',
  '''            dest_uid = await mbx.move(source_uid, dest,
                                      recent=not dest_selected)
            if dest_uid is not None:
                uids.append((source_uid, dest_uid))''')
# twins
V('c10-twin-union-method', 'C10', 'R10.1', FLAGSPY,
  'return frozenset(flag_set | operand)',
  'return frozenset(flag_set).union(operand)', expect='silent')
V('c10-twin-intersect-call', 'C10', 'R10.2', SESS,
  'permanent_flags = selected.permanent_flags & flag_set',
  'permanent_flags = selected.permanent_flags.intersect(flag_set)',
  expect='silent')
V('c10-twin-seen-frozenset', 'C10', 'R10.6', FATTR,
  '''        if self.value == b'BODY' and self.section:
            return True
        elif self.value == b'BINARY':
            return True
        elif self.value in (b'RFC822', b'RFC822.TEXT'):
            return True
        return False''',
  '''        if self.value == b'BODY':
            return bool(self.section)
        return self.value in (b'BINARY', b'RFC822', b'RFC822.TEXT')''',
  expect='silent')

# ---------------------------------------------------------------- C11
LISTTREE = 'pymap/listtree.py'
LAYOUT = 'pymap/backend/maildir/layout.py'
V('c11-add-keyerror', 'C11', 'R11.1a', MAILDIRMBX,
  '''        except FileExistsError as exc:
            raise ValueError(name) from exc
        except FileNotFoundError as exc:
            raise MailboxNotFound(name) from exc''',
  '''        except FileExistsError as exc:
            raise KeyError(name) from exc
        except FileNotFoundError as exc:
            raise MailboxNotFound(name) from exc''')
V('c11-dict-delete-valueerror', 'C11', 'R11.1a', DICTMBX,
  '''            if name not in self._set:
                raise KeyError(name)''', '''            if name not in self._set:
                raise LookupError(name)''')
V('c11-session-no-translation', 'C11', 'R11.1a', SESS,
  '''        try:
            await self.mailbox_set.delete_mailbox(name)
        except KeyError as exc:
            raise MailboxNotFound(name) from exc
        return''', '''        await self.mailbox_set.delete_mailbox(name)
        return''')
V('c11-rename-unhandled', 'C11', 'R11.1b', MAILDIRMBX,
  '''            try:
                self._layout.rename_folder(before, after, self.delimiter)
            except FileNotFoundError as exc:
                raise KeyError(before) from exc
            except FileExistsError as exc:
                raise ValueError(after) from exc''',
  '''            try:
                self._layout.rename_folder(before, after, self.delimiter)
            except FileNotFoundError as exc:
                raise KeyError(before) from exc''')
V('c11-get-folder-unhandled', 'C11', 'R11.1b', MAILDIRMBX,
  '''            try:
                maildir = self._layout.get_folder(name, self.delimiter)
            except FileNotFoundError as exc:
                raise KeyError(name) from exc''',
  '''            maildir = self._layout.get_folder(name, self.delimiter)''')
V('c11-rename-source-unchecked', 'C11', 'R11.1c', LAYOUT,
  '''        if not os.path.isdir(source_path):
            raise FileNotFoundError(source_path)
        elif os.path.exists(dest_path):
            raise FileExistsError(dest_path)''',
  '''        if os.path.exists(dest_path):
            raise FileExistsError(dest_path)''')
V('c11-star-misses-end', 'C11', 'R11.2', LISTTREE,
  'ends = set(range(min(ends), len(name) + 1))',
  'ends = set(range(min(ends), len(name)))')
V('c11-star-from-latest', 'C11', 'R11.2', LISTTREE,
  'ends = set(range(min(ends), len(name) + 1))',
  'ends = set(range(max(ends), len(name) + 1))')
V('c11-end-not-anchored', 'C11', 'R11.2', LISTTREE,
  '        return len(name) in ends\n',
  '        return bool(ends)\n')
V('c11-percent-crosses-delimiter', 'C11', 'R11.2', LISTTREE,
  '                    new_ends.update(range(start, stop + 1))',
  '                    new_ends.update(range(start, stop + 2))')
V('c11-percent-needs-one-char', 'C11', 'R11.2', LISTTREE,
  '                    new_ends.update(range(start, stop + 1))',
  '                    new_ends.update(range(start + 1, stop + 1))')
V('c11-percent-no-fallback', 'C11', 'R11.2', LISTTREE,
  '''                    if stop < 0:
                        stop = len(name)
''', '''''')
V('c11-literal-ignores-offset', 'C11', 'R11.2', LISTTREE,
  'if name.startswith(part, end)}', 'if part in name[end:]}',
  expect='undecided')
V('c11-rename-guard-wrong-field', 'C11', 'R11.3', STATE,
  "if cmd.to_mailbox == 'INBOX':", "if cmd.from_mailbox == 'INBOX':")
V('c11-delete-no-inbox-guard', 'C11', 'R11.3', STATE,
  '''        if cmd.mailbox == 'INBOX':
            return ResponseNo(cmd.tag, b'Cannot delete INBOX.'), None
''', '')
V('c11-inbox-not-recreated', 'C11', 'R11.4', DICTMBX,
  '''                    self._set[after_name] = self._inbox
                    self._inbox = MailboxData(
                        self._content_cache, self._thread_cache)''',
  '''                    self._set[after_name] = self._inbox''')
# twins
V('c11-twin-one-plus-len', 'C11', 'R11.2', LISTTREE,
  'ends = set(range(min(ends), len(name) + 1))',
  'ends = set(range(min(ends), 1 + len(name)))', expect='silent')
V('c11-twin-find-eq-minus-one', 'C11', 'R11.2', LISTTREE,
  '                    if stop < 0:', '                    if stop == -1:',
  expect='silent')

# ---------------------------------------------------------------- C18
PRIM = 'pymap/parsing/primitives.py'
CMDSPY = 'pymap/parsing/commands.py'
DTPY = 'pymap/parsing/specials/datetime_.py'
SEQPY = 'pymap/parsing/specials/sequenceset.py'
V('c18-revert-raw-span', 'C18', 'R18.1', PRIM,
  'quoted = buf[start:end]', 'quoted = buf[start:end + 1]')
V('c18-raw-short', 'C18', 'R18.1', PRIM,
  'quoted = buf[start:end]', 'quoted = buf[start:end - 1]')
V('c18-plus-branch-differs', 'C18', 'R18.2', PRIM,
  '''        elif match.group(3) == b'+':
            buf = buf[match.end(0):]
            literal = bytes(buf[0:literal_length])''',
  '''        elif match.group(3) == b'+':
            buf = buf[match.end(0):]
            literal = bytes(buf[0:literal_length]).rstrip(b'\\r\\n')''')
V('c18-remainder-off', 'C18', 'R18.2', PRIM,
  'return cls(literal, binary), buf[literal_length:]',
  'return cls(literal, binary), buf[literal_length + 1:]')
V('c18-no-upper', 'C18', 'R18.3', CMDSPY,
  'cmd_parts.append(atom.value.upper())', 'cmd_parts.append(atom.value)')
V('c18-lowercase-command', 'C18', 'R18.3', SELECTCMD,
  "    command = b'CHECK'", "    command = b'Check'")
V('c18-sieve-no-upper', 'C18', 'R18.3', 'pymap/sieve/manage/command.py',
  'cmd_type = commands[cmd_name.value.upper()]',
  'cmd_type = commands[cmd_name.value]')
V('c18-date-format-differs', 'C18', 'R18.4', DTPY,
  "raw_str = self.value.strftime('%d-%b-%Y %X %z')",
  "raw_str = self.value.strftime('%Y-%m-%d %X %z')")
V('c18-literal-prefix-format', 'C18', 'R18.4', PRIM,
  "return b'%b{%d}\\r\\n' % (binary_prefix, self.length)",
  "return b'%b{%d}\\n\\r' % (binary_prefix, self.length)")
V('c18-seqset-writer-dash', 'C18', 'R18.4', SEQPY,
  "parts.append(b'%b:%b' % (left, right))",
  "parts.append(b'%b-%b' % (left, right))")
# twins
V('c18-twin-date-hms', 'C18', 'R18.4', DTPY,
  "raw_str = self.value.strftime('%d-%b-%Y %X %z')",
  "raw_str = self.value.strftime('%d-%b-%Y %H:%M:%S %z')", expect='silent')
V('c18-twin-raw-local', 'C18', 'R18.1', PRIM,
  '''                end = match.end(0)
                quoted = buf[start:end]
                return cls(bytes(unquoted), bytes(quoted)), buf[end:]''',
  '''                stop = match.end(0)
                return cls(bytes(unquoted), bytes(buf[start:stop])), buf[stop:]''',
  expect='silent')

# ---------------------------------------------------------------- C07
MODUTF7 = 'pymap/parsing/modutf7.py'
RESPINIT = 'pymap/parsing/response/__init__.py'
RESPSPEC = 'pymap/parsing/response/specials.py'
TAGPY = 'pymap/parsing/specials/tag.py'
V('c07-revert-cr', 'C07', 'R7.1', PRIM,
  '''                and b'\\r' not in ascii_ \\
                and b'\\n' not in ascii_ \\''',
  '''                and b'\\n' not in ascii_ \\''')
V('c07-nul-admitted', 'C07', 'R7.1', PRIM,
  '''                and b'\\n' not in ascii_ \\
                and b'\\x00' not in ascii_:''',
  '''                and b'\\n' not in ascii_:''')
V('c07-escape-only-quote', 'C07', 'R7.2', PRIM,
  '''_quoted_specials_pattern = re.compile(br'[\\"\\\\]')''',
  '''_quoted_specials_pattern = re.compile(br'[\\"]')''')
V('c07-escape-no-backslash', 'C07', 'R7.2', PRIM,
  "return b'\\\\' + match.group(0)", "return match.group(0)")
V('c07-direct-quoted-name', 'C07', 'R7.3', RESPSPEC,
  '''        return super().text + BytesFormat(b' ').join(
            (self._name, attrs_obj, sep_obj, Mailbox(self.mailbox)))''',
  '''        return super().text + BytesFormat(b' ').join(
            (self._name, attrs_obj, sep_obj,
             QuotedString(self.mailbox.encode('utf-8'))))''')
V('c07-modutf7-wide-range', 'C07', 'R7.4', MODUTF7,
  '''            elif 0x20 <= charpoint <= 0x7e:
                ret.append(charpoint)''', '''            elif 0x20 <= charpoint <= 0xff:
                ret.append(charpoint)''')
V('c07-modutf7-raw-append', 'C07', 'R7.4', MODUTF7,
  '''            else:
                encode_start = i
                is_usascii = False''', '''            elif charpoint < 0x20:
                ret.append(charpoint)
            else:
                encode_start = i
                is_usascii = False''')
V('c07-fetch-no-crlf', 'C07', 'R7.5', RESPSPEC,
  '''        data_list.write(writer)
        writer.write(b'\\r\\n')''', '''        data_list.write(writer)
        if self.data:
            writer.write(b'\\r\\n')''')
V('c07-response-lf-only', 'C07', 'R7.5', RESPINIT,
  "writer.write(b'%b %b\\r\\n' % (self.tag, self.text))",
  "writer.write(b'%b %b\\n' % (self.tag, self.text))")
V('c07-tag-admits-space', 'C07', 'R7.6', TAGPY,
  "_pattern = re.compile(br'[\\x21\\x23\\x24\\x26\\x27\\x2C-\\x5B'",
  "_pattern = re.compile(br'[\\x20\\x21\\x23\\x24\\x26\\x27\\x2C-\\x5B'")
V('c07-list-skips-close', 'C07', 'R7.7', PRIM,
  '''            else:
                writer.write(bytes(item))
        writer.write(b')')''', '''            else:
                writer.write(bytes(item))
        if self.items:
            writer.write(b')')''')
V('c07-unbalanced-format', 'C07', 'R7.7', RESPINIT,
  "return BytesFormat(b'[%b]') % self.code",
  "return BytesFormat(b'[%b') % self.code")
V('c07-literal-length-of-bytes', 'C07', 'R7.8', PRIM,
  '''        self._string = string
        self._length = len(string)
        self._binary = binary''', '''        self._string = string
        self._length = len(bytes(string).rstrip())
        self._binary = binary''')
V('c07-literal-writes-extra', 'C07', 'R7.8', PRIM,
  '''        else:
            writer.write(self._string)

    def __len__''', '''        else:
            writer.write(self._string)
            writer.write(b' ')

    def __len__''')
# twins
V('c07-twin-range-form', 'C07', 'R7.4', MODUTF7,
  '''            elif 0x20 <= charpoint <= 0x7e:
                ret.append(charpoint)''', '''            elif 0x20 <= charpoint < 0x7f:
                ret.append(charpoint)''', expect='silent')
V('c07-twin-fetch-one-write', 'C07', 'R7.5', RESPSPEC,
  '''        data_list.write(writer)
        writer.write(b'\\r\\n')''', '''        data_list.write(writer)
        crlf = b'\\r\\n'
        writer.write(crlf)''', expect='silent')

# ---------------------------------------------------------------- C08
V('c08-revert-validator', 'C08', 'R8.1', LAYOUT,
  '''        parts = name.split(delimiter)
        for part in parts:
            if not part or part in ('.', '..') \\
                    or os.sep in part or '\\0' in part:
                raise NotSupportedError('Invalid mailbox name.')
        return parts''', '''        return name.split(delimiter)''')
V('c08-validator-no-dotdot', 'C08', 'R8.1', LAYOUT,
  "if not part or part in ('.', '..') \\", "if not part or part in ('.', ) \\")
V('c08-validator-allows-empty', 'C08', 'R8.1', LAYOUT,
  "if not part or part in ('.', '..') \\", "if part in ('.', '..') \\")
V('c08-bypass-split', 'C08', 'R8.1', LAYOUT,
  '''    def get_path(self, name: str, delimiter: str) -> str:
        parts = self._split(name, delimiter)
        return self._get_path(parts)''',
  '''    def get_path(self, name: str, delimiter: str) -> str:
        parts = name.split(delimiter)
        return self._get_path(parts)''')
V('c08-mailboxset-direct-join', 'C08', 'R8.1', MAILDIRMBX,
  '''            path = self._layout.get_path(name, self.delimiter)
            async with UidList.with_init(path) as uidl:
                mailbox_id = ObjectId(uidl.global_uid)
            mbx = MailboxData(mailbox_id, maildir, path)''',
  '''            path = os.path.join(self._path, name)
            async with UidList.with_init(path) as uidl:
                mailbox_id = ObjectId(uidl.global_uid)
            mbx = MailboxData(mailbox_id, maildir, path)''')
V('c08-validator-after-use', 'C08', 'R8.1', LAYOUT,
  '''        parts = name.split(delimiter)
        for part in parts:
            if not part or part in ('.', '..') \\
                    or os.sep in part or '\\0' in part:
                raise NotSupportedError('Invalid mailbox name.')
        return parts''', '''        parts = name.split(delimiter)
        if len(parts) > 64:
            for part in parts:
                if not part or part in ('.', '..') \\
                        or os.sep in part or '\\0' in part:
                    raise NotSupportedError('Invalid mailbox name.')
        return parts''')
V('c08-cache-shared', 'C08', 'R8.2', DICTINIT,
  'mailbox_set, filter_set = config.set_cache.get(identity, (None, None))',
  "mailbox_set, filter_set = config.set_cache.get('shared', (None, None))")
V('c08-delete-inbox', 'C08', 'R8.3', STATE,
  '''        if cmd.mailbox == 'INBOX':
            return ResponseNo(cmd.tag, b'Cannot delete INBOX.'), None
''', '')
V('c08-maildir-rename-inbox', 'C08', 'R8.3', MAILDIRMBX,
  '''        if before == 'INBOX':
            raise NotSupportedError()  # TODO
        else:
            try:''', '''        if True:
            try:''')
# twin
V('c08-twin-helper-validator', 'C08', 'R8.1', LAYOUT,
  '''        parts = name.split(delimiter)
        for part in parts:
            if not part or part in ('.', '..') \\
                    or os.sep in part or '\\0' in part:
                raise NotSupportedError('Invalid mailbox name.')
        return parts''', '''        parts = name.split(delimiter)
        for part in parts:
            if part == '' or part == '.' or part == '..' or '\\0' in part:
                raise NotSupportedError('Invalid mailbox name.')
        return parts''', expect='silent')

# ---------------------------------------------------------------- C03
MIMEPY = 'pymap/mime/__init__.py'
UTILPY = 'pymap/mime/_util.py'
MSGPY = 'pymap/message.py'
FETCHPY = 'pymap/fetch.py'
V('c03-append-strips', 'C03', 'R3.1', DICTMBX,
  'content = MessageContent.parse(append_msg.literal)',
  'content = MessageContent.parse(append_msg.literal.strip())')
V('c03-parse-normalises', 'C03', 'R3.1', MIMEPY,
  '''        lines = cls._find_lines(data)
        view = memoryview(data)
        return cls._parse(data, view, lines)''',
  '''        data = data.replace(b'\\r\\n', b'\\n')
        lines = cls._find_lines(data)
        view = memoryview(data)
        return cls._parse(data, view, lines)''')
V('c03-body-bytes-rstrip', 'C03', 'R3.1', MIMEPY,
  '''    def __len__(self) -> int:
        return len(self._raw)

    def __bytes__(self) -> bytes:
        return bytes(self._raw)


class MessageHeader(Writeable):''', '''    def __len__(self) -> int:
        return len(self._raw)

    def __bytes__(self) -> bytes:
        return bytes(self._raw).rstrip()


class MessageHeader(Writeable):''')
V('c03-get-body-text-only', 'C03', 'R3.1', MSGPY,
  '''        else:
            if not section:
                return msg
            else:
                return msg.body''', '''        else:
            return msg.body''')
V('c03-partial-decodes', 'C03', 'R3.1', FETCHPY,
  '        full = bytes(data)', "        full = bytes(data).replace(b'\\0', b'')")
V('c03-revert-get-raw', 'C03', 'R3.2', UTILPY,
  '''    groups = [group for group in lines if group]
    if not groups:
        return view[0:0]
    start = groups[0][0][0]
    end = groups[-1][-1][2]
    return view[start:end]''', '''    try:
        start = lines[0][0][0]
    except IndexError:
        start = 0
    try:
        end = lines[-1][-1][2]
    except IndexError:
        end = -1
    return view[start:end]''')
V('c03-len-other-field', 'C03', 'R3.3', MIMEPY,
  '''    def __len__(self) -> int:
        return len(self._raw)

    def __bytes__(self) -> bytes:
        return bytes(self._raw)


class MessageBody(Writeable):''', '''    def __len__(self) -> int:
        return len(self._lines)

    def __bytes__(self) -> bytes:
        return bytes(self._raw)


class MessageBody(Writeable):''')
V('c03-split-drops-line', 'C03', 'R3.4', MIMEPY,
  'return lines[0:i + 1], lines[i + 1:]', 'return lines[0:i], lines[i + 1:]')
V('c03-partial-end-length', 'C03', 'R3.5', FETCHPY,
  '            end = start + length', '            end = length')
V('c03-size-of-body', 'C03', 'R3.6', MSGPY,
  '''        except (IndexError, _NoContent):
            return 0
        return len(msg)''', '''        except (IndexError, _NoContent):
            return 0
        return len(msg.body)''')
V('c03-revert-maildir-copy', 'C03', 'R3.7', MAILDIRMBX,
  '''            record, _ = await self._get_maildir_msg(uid)
            async with self.messages_lock.read_lock():
                copy_msg = self._maildir.get_message(record.key)
        except (KeyError, FileNotFoundError):
            return None''', '''            record, maildir_msg = await self._get_maildir_msg(uid)
        except (KeyError, FileNotFoundError):
            return None
        copy_msg = MaildirMessage(maildir_msg)''')
V('c03-dict-copy-no-content', 'C03', 'R3.7', DICTMBX,
  '''                   content=msg._content)''', '''                   content=None)''')
# twins
V('c03-twin-len-via-bytes', 'C03', 'R3.3', MIMEPY,
  '''    def __len__(self) -> int:
        return len(self._raw)

    def __bytes__(self) -> bytes:
        return bytes(self._raw)


class MessageBody(Writeable):''', '''    def __len__(self) -> int:
        return len(bytes(self))

    def __bytes__(self) -> bytes:
        return bytes(self._raw)


class MessageBody(Writeable):''', expect='silent')

# ---------------------------------------------------------------- C06
ASTRPY = 'pymap/parsing/specials/astring.py'
MBXSPEC = 'pymap/parsing/specials/mailbox.py'
SKEYPY2 = 'pymap/parsing/specials/searchkey.py'
AUTHCMD = 'pymap/parsing/command/auth.py'
OPTSPY = 'pymap/parsing/specials/options.py'
V('c06-revert-modutf7-spin', 'C06', 'R6.1', MODUTF7,
  '''                    is_usascii = True
                    break
            else:
                break''', '''                    is_usascii = True
                    break''')
V('c06-list-loop-no-progress', 'C06', 'R6.1', PRIM,
  '''            item, buf = ExpectedParseable.parse(buf, params)
            if len(items) == limit:''',
  '''            item, _ = ExpectedParseable.parse(buf, params)
            if len(items) == limit:''')
V('c06-seqset-comma-not-consumed', 'C06', 'R6.1', SEQPY,
  '''            if buf and buf[0] != 0x2c:
                break
            buf = buf[1:]
        if not sequences:''', '''            if buf and buf[0] != 0x2c:
                break
        if not sequences:''', edits=[(SEQPY, '''            if buf and buf[0] != 0x2c:
                break
            buf = buf[1:]
        if not sequences:''', '''            if buf and buf[0] != 0x2c:
                break
        if not sequences:'''), (SEQPY, '''            item, buf = cls._parse_part(buf)
            sequences.append(item)''', '''            item, _ = cls._parse_part(buf)
            sequences.append(item)''')])
V('c06-optional-parser-in-expected', 'C06', 'R6.1', SELECTCMD,
  'params_copy = params.copy(expected=[Flag])',
  'params_copy = params.copy(expected=[Flag, ExtensionOptions])')
V('c06-find-lines-no-advance', 'C06', 'R6.1', MIMEPY,
  '''            ret.append((start, idx, next_start))
            start = next_start''', '''            ret.append((start, idx, next_start))
            start = idx''')
V('c06-revert-mailbox-decode', 'C06', 'R6.2', MBXSPEC,
  '''        try:
            return cls(modutf7_decode(mailbox)), buf
        except UnicodeError as exc:
            raise NotParseable(buf) from exc''',
  '''        return cls(modutf7_decode(mailbox)), buf''')
V('c06-revert-charset', 'C06', 'R6.2', SELECTCMD,
  '''                except (LookupError, UnicodeError) as exc:''',
  '''                except LookupError as exc:''')
V('c06-astring-filter-unguarded', 'C06', 'R6.2', SKEYPY2,
  '''        try:
            return ret.value.decode(params.charset or 'ascii'), after
        except UnicodeError as exc:
            raise NotParseable(buf) from exc''',
  '''        return ret.value.decode(params.charset or 'ascii'), after''')
V('c06-number-unguarded-int', 'C06', 'R6.2', PRIM,
  '''        atom = match.group(0)
        if not cls._num_pattern.match(atom):
            raise NotParseable(buf)
        try:
            num = int(match.group(0))
        except ValueError as exc:
            raise NotParseable(buf) from exc
        return cls(num), buf[match.end(0):]''',
  '''        return cls(int(match.group(0))), buf[match.end(0):]''')
V('c06-date-filter-valueerror', 'C06', 'R6.2', SKEYPY2,
  '''        try:
            date = datetime.strptime(date_str, '%d-%b-%Y')
        except ValueError as exc:
            raise NotParseable(buf) from exc''',
  '''        date = datetime.strptime(date_str, '%d-%b-%Y')''')
V('c06-new-recursion', 'C06', 'R6.3', ASTRPY,
  '''        string, buf = String.parse(buf, params)
        return cls(string.value, bytes(string)), buf''',
  '''        if buf[0:1] == b'(':
            inner, buf = cls.parse(buf[1:], params)
            return inner, buf[1:]
        string, buf = String.parse(buf, params)
        return cls(string.value, bytes(string)), buf''')
V('c06-revert-subject-loop', 'C06', 'R6.3', 'pymap/threads.py',
  '''        while True:
            match = cls._first_match(
                value, cls._fwd_pattern, cls._re_pattern,
                cls._listtag_pattern)
            if match is None:
                return cls._whitespace.sub(' ', value.strip())
            value = value[match.end(0):]''',
  '''        match = cls._first_match(
            value, cls._fwd_pattern, cls._re_pattern, cls._listtag_pattern)
        if match is None:
            return cls._whitespace.sub(' ', value.strip())
        else:
            return cls._subject(value[match.end(0):])''')
V('c06-revert-write-containment', 'C06', 'R6.4', IMAP,
  '''                    try:
                        await self.write_response(response)
                    except Exception:
                        await self.send_error_disconnect()
                        raise''', '''                    await self.write_response(response)''')
V('c06-revert-bye-order', 'C06', 'R6.4', IMAP,
  '''                    else:
                        bad_commands = 0
                    try:
                        await self.write_response(response)
                    except Exception:
                        await self.send_error_disconnect()
                        raise''', '''                    else:
                        bad_commands = 0''',
  edits=[(IMAP, '''                    if response.is_bad:
                        bad_commands += 1''', '''                    try:
                        await self.write_response(response)
                    except Exception:
                        await self.send_error_disconnect()
                        raise
                    if response.is_bad:
                        bad_commands += 1'''),
         (IMAP, '''                    else:
                        bad_commands = 0
                    try:
                        await self.write_response(response)
                    except Exception:
                        await self.send_error_disconnect()
                        raise''', '''                    else:
                        bad_commands = 0''')])
V('c06-toobig-after-expect', 'C06', 'R6.5', PRIM,
  '''        if cls._check_too_big(params, literal_length):
            raise NotParseable(buf, b'TOOBIG')
        elif match.group(3) == b'+':''',
  '''        if match.group(3) == b'+':''',
  edits=[(PRIM, '''        if cls._check_too_big(params, literal_length):
            raise NotParseable(buf, b'TOOBIG')
        elif match.group(3) == b'+':''', '''        if match.group(3) == b'+':'''),
         (PRIM, '''        if len(literal) != literal_length:
            raise NotParseable(buf)
        return cls(literal, binary), buf[literal_length:]''',
          '''        if cls._check_too_big(params, literal_length):
            raise NotParseable(buf, b'TOOBIG')
        if len(literal) != literal_length:
            raise NotParseable(buf)
        return cls(literal, binary), buf[literal_length:]''')])
V('c06-list-limit-after-append', 'C06', 'R6.5', PRIM,
  '''            if len(items) == limit:
                raise NotParseable(buf)
            items.append(item)''', '''            items.append(item)''')
V('c06-revert-none-date', 'C06', 'R6.6', 'pymap/parsing/response/fetch.py',
  '''        date = self.date.datetime if self.date else None
        datetime: DateTime | Nil = \\
            DateTime(date) if date is not None else Nil()''',
  '''        datetime: DateTime | Nil = \\
            DateTime(self.date.datetime) if self.date else Nil()''')
V('c06-qp-decoder-strict', 'C06', 'R6.7', 'pymap/mime/cte.py',
  '''        ret = quopri.decodestring(raw)
        return Writeable.wrap(ret)''', '''        ret = quopri.decodestring(raw)
        return Writeable.wrap(ret.decode('ascii').encode('utf-8'))''')
V('c06-fetchattr-unhandled', 'C06', 'R6.7', FATTR,
  "b'RFC822.SIZE', b'BODYSTRUCTURE', b'EMAILID',",
  "b'RFC822.SIZE', b'BODYSTRUCTURE', b'EMAILID', b'MODSEQ',")
# twins
V('c06-twin-depth-param', 'C06', 'R6.3', 'pymap/threads.py',
  '''        while True:
            match = cls._first_match(
                value, cls._fwd_pattern, cls._re_pattern,
                cls._listtag_pattern)
            if match is None:
                return cls._whitespace.sub(' ', value.strip())
            value = value[match.end(0):]''',
  '''        if depth > 50:
            return cls._whitespace.sub(' ', value.strip())
        match = cls._first_match(
            value, cls._fwd_pattern, cls._re_pattern, cls._listtag_pattern)
        if match is None:
            return cls._whitespace.sub(' ', value.strip())
        else:
            return cls._subject(value[match.end(0):], depth + 1)''',
  expect='silent',
  edits=[('pymap/threads.py', '''        while True:
            match = cls._first_match(
                value, cls._fwd_pattern, cls._re_pattern,
                cls._listtag_pattern)
            if match is None:
                return cls._whitespace.sub(' ', value.strip())
            value = value[match.end(0):]''',
          '''        if depth > 50:
            return cls._whitespace.sub(' ', value.strip())
        match = cls._first_match(
            value, cls._fwd_pattern, cls._re_pattern, cls._listtag_pattern)
        if match is None:
            return cls._whitespace.sub(' ', value.strip())
        else:
            return cls._subject(value[match.end(0):], depth + 1)'''),
         ('pymap/threads.py', 'def _subject(cls, value: str) -> str:',
          'def _subject(cls, value: str, depth: int = 0) -> str:')])
V('c06-twin-cursor-loop', 'C06', 'R6.1', MODUTF7,
  '''            else:
                parts.append(chr(byte))
                buf = buf[1:]''', '''            else:
                parts.append(chr(byte))
                step = 1
                buf = buf[step:]''', expect='silent')
V('c18-revert-amp-escape', 'C18', 'R18.6', MODUTF7,
  '''                ret.append(0x2d)
                if charpoint == 0x26:
                    ret.extend(b'&-')
                else:
                    ret.append(charpoint)
                is_usascii = True''', '''                ret.extend((0x2d, charpoint))
                is_usascii = True''')
V('c18-amp-unescaped-ascii', 'C18', 'R18.6', MODUTF7,
  '''            if charpoint == 0x26:
                ret.extend(b'&-')
            elif 0x20 <= charpoint <= 0x7e:''', '''            if 0x20 <= charpoint <= 0x7e:''')
V('c06-revert-selfmove', 'C06', 'R6.8', MAILDIRMBX,
  '''        async with AsyncExitStack() as stack:
            await stack.enter_async_context(self.messages_lock.write_lock())
            if destination is not self:
                await stack.enter_async_context(
                    destination.messages_lock.write_lock())
            try:''', '''        async with (destination.messages_lock.write_lock(),
                    self.messages_lock.write_lock()):
            try:''')
V('c06-selfmove-guard-dropped', 'C06', 'R6.8', MAILDIRMBX,
  '''            if destination is not self:
                await stack.enter_async_context(
                    destination.messages_lock.write_lock())''',
  '''            await stack.enter_async_context(
                destination.messages_lock.write_lock())''')
V('c06-dict-move-nested-locks', 'C06', 'R6.8', DICTMBX,
  '''            self._mod_sequences.expunge([uid])
            self._updated.set()
        async with destination.messages_lock.write_lock():
            destination._max_uid = dest_uid = destination._max_uid + 1
            new_msg = Message.copy(message, uid=dest_uid, recent=recent)
            destination._messages[dest_uid] = new_msg
            destination._mod_sequences.update([dest_uid])
            destination._updated.set()
        return dest_uid

    async def get''', '''            self._mod_sequences.expunge([uid])
            self._updated.set()
            async with destination.messages_lock.write_lock():
                destination._max_uid = dest_uid = destination._max_uid + 1
                new_msg = Message.copy(message, uid=dest_uid, recent=recent)
                destination._messages[dest_uid] = new_msg
                destination._mod_sequences.update([dest_uid])
                destination._updated.set()
        return dest_uid

    async def get''')

# ---------------------------------------------------------------- rules
# added after the independently seeded changes (DESIGN section 14)
IMAPINIT = 'pymap/imap/__init__.py'
SIEVE = 'pymap/sieve/manage/__init__.py'
FETCHPY = 'pymap/fetch.py'
LAYOUT = 'pymap/backend/maildir/layout.py'
PARSINGINIT = 'pymap/parsing/__init__.py'
SEQSET = 'pymap/parsing/specials/sequenceset.py'
V('c01-idle-drop-when-done', 'C01', 'R1.9', IMAPINIT,
  '''            untagged = await self._exec(state.receive_updates(cmd, done))
            await shield(self.write_updates(untagged))''',
  '''            untagged = await self._exec(state.receive_updates(cmd, done))
            if not untagged:
                continue
            await shield(self.write_updates(untagged))''')
V('c16-idle-drop-when-done', 'C16', 'R16.5', IMAPINIT,
  '''            untagged = await self._exec(state.receive_updates(cmd, done))
            await shield(self.write_updates(untagged))''',
  '''            untagged = await self._exec(state.receive_updates(cmd, done))
            if done.is_set():
                return
            await shield(self.write_updates(untagged))''')
V('c01-idle-twin-log', 'C01', 'R1.9', IMAPINIT,
  '''            untagged = await self._exec(state.receive_updates(cmd, done))
            await shield(self.write_updates(untagged))''',
  '''            untagged = await self._exec(state.receive_updates(cmd, done))
            if done.is_set():
                _log.debug('idle finished')
            await shield(self.write_updates(untagged))''', expect='silent')
V('c02-flagkey-discard-new', 'C02', 'R2.7', SEL,
  'self._flags_key_set.discard(old_flags_key)',
  'self._flags_key_set.discard(new_flags_key)')
V('c02-flagkey-twin-rename', 'C02', 'R2.7', SEL,
  '''            old_flags_key = self._flags_key_map.get(msg_uid)
            if old_flags_key is not None:
                self._flags_key_set.discard(old_flags_key)''',
  '''            prev_key = self._flags_key_map.get(msg_uid)
            if prev_key is not None:
                self._flags_key_set.discard(prev_key)''', expect='silent')
V('c03-partial-always-sliced-wrong', 'C03', 'R3.5', FETCHPY,
  '''        if partial is None:
            return data
        full = bytes(data)''', '''        if partial is None or partial.start == 0:
            return data
        full = bytes(data)''')
V('c04-uid-computed-outside-lock', 'C04', 'R4.1', DICTMBX,
  '''        async with destination.messages_lock.write_lock():
            destination._max_uid = dest_uid = destination._max_uid + 1
            new_msg = Message.copy(message, uid=dest_uid, recent=recent)
            destination._messages[dest_uid] = new_msg
            destination._mod_sequences.update([dest_uid])
            destination._updated.set()
        return dest_uid

    async def move''', '''        dest_uid = destination._max_uid + 1
        async with destination.messages_lock.write_lock():
            destination._max_uid = dest_uid
            new_msg = Message.copy(message, uid=dest_uid, recent=recent)
            destination._messages[dest_uid] = new_msg
            destination._mod_sequences.update([dest_uid])
            destination._updated.set()
        return dest_uid

    async def move''')
V('c08-split-strips', 'C08', 'R8.1', LAYOUT,
  '''        parts = name.split(delimiter)
        for part in parts:
            if not part or part in ('.', '..') \\
                    or os.sep in part or '\\0' in part:
                raise NotSupportedError('Invalid mailbox name.')
        return parts''',
  '''        parts = name.split(delimiter)
        for part in parts:
            if not part or part in ('.', '..') \\
                    or os.sep in part or '\\0' in part:
                raise NotSupportedError('Invalid mailbox name.')
        return [os.path.normpath(part) for part in parts]''')
V('c08-split-inbox-casefold', 'C08', 'R8.4', LAYOUT,
  '''        if name == 'INBOX':
            return []
        parts = name.split(delimiter)''',
  '''        if name.upper().startswith('INBOX'):
            return []
        parts = name.split(delimiter)''')
V('c18-continuation-raw-readline', 'C18', 'R18.7', IMAPINIT,
  '''        extra_line = await self.readline()
        extra = extra_literal + bytes(extra_line)''',
  '''        extra_line = await self.reader.readuntil(b'\\n')
        extra = extra_literal + bytes(extra_line)''')
V('c18-encoder-range-7f', 'C18', 'R18.7', 'pymap/parsing/modutf7.py',
  '''            elif 0x20 <= charpoint <= 0x7e:''',
  '''            elif 0x20 <= charpoint <= 0x7f:''')
V('c19-sieve-login-cached', 'C19', 'R19.7', SIEVE,
  '''        stack = connection_exit.get()
        identity = await self.login.authenticate(creds)
        return await stack.enter_async_context(identity.new_session())''',
  '''        stack = connection_exit.get()
        if creds.authcid == getattr(self, '_last_authcid', None):
            return await stack.enter_async_context(
                self._last_identity.new_session())
        identity = await self.login.authenticate(creds)
        self._last_authcid = creds.authcid
        self._last_identity = identity
        return await stack.enter_async_context(identity.new_session())''')
V('c09-imap-login-skips-authenticate', 'C09', 'R9.2', STATE,
  '''        authenticated = await self.login.authenticate(creds)
        authorized = await self.login.authorize(authenticated, creds.authzid)
        return await stack.enter_async_context(authorized.new_session())''',
  '''        if creds.authzid is None and self._session is not None:
            return self._session
        authenticated = await self.login.authenticate(creds)
        authorized = await self.login.authorize(authenticated, creds.authzid)
        return await stack.enter_async_context(authorized.new_session())''')
V('c06-copy-truthy-override', 'C06', 'R6.9', PARSINGINIT,
  '''        if value is not None:
            kwargs[attr] = value
        else:
            kwargs[attr] = getattr(self, attr)''',
  '''        if value:
            kwargs[attr] = value
        else:
            kwargs[attr] = getattr(self, attr)''')
V('c06-copy-twin-ifexp', 'C06', 'R6.9', PARSINGINIT,
  '''        if value is not None:
            kwargs[attr] = value
        else:
            kwargs[attr] = getattr(self, attr)''',
  '''        kwargs[attr] = value if value is not None \\
            else getattr(self, attr)''', expect='silent')
V('c06-sieve-continuations-on', 'C06', 'R6.9', SIEVE,
  'config.parsing_params.copy(allow_continuations=False)',
  'config.parsing_params.copy()')
V('c06-literal-expect-unguarded', 'C06', 'R6.9', PRIM,
  '''        elif params.allow_continuations:
            expected = ExpectContinuation(b'Literal string', literal_length)''',
  '''        elif params.allow_continuations or literal_length == 0:
            expected = ExpectContinuation(b'Literal string', literal_length)''')
V('c06-range-unclamped-high', 'C06', 'R6.5', SEQSET,
  'high = min(max(left, right), max_value)',
  'high = max(left, right)')
V('c06-range-twin-reordered', 'C06', 'R6.5', SEQSET,
  'high = min(max(left, right), max_value)',
  'high = min(max_value, max(left, right))', expect='silent')
V('c06-range-single-unguarded', 'C06', 'R6.5', SEQSET,
  '''            if elem <= max_value:
                return range(elem, elem + 1)
            else:
                return ()''', '''            return range(elem, elem + 1)''')
V('c09-logindisabled-substring', 'C09', 'R9.5', STATE,
  "        if b'LOGINDISABLED' in self.capability:\n            raise NotSupportedError('LOGIN is disabled.')",
  "        if b'LOGINDISABLED' in self._capability:\n            raise NotSupportedError('LOGIN is disabled.')")
V('c10-seen-also-when-flagged', 'C10', 'R10.6', SESS,
  '''            if set_seen:
                msg = await mbx.update(cached_msg.uid, cached_msg,
                                       frozenset({Seen}), FlagOp.ADD)''',
  '''            if set_seen or cached_msg.uid in selected.session_flags.recent:
                msg = await mbx.update(cached_msg.uid, cached_msg,
                                       frozenset({Seen}), FlagOp.ADD)''')
V('c11-maildir-get-cached-first', 'C11', 'R11.5', MAILDIRMBX,
  '''        if name == 'INBOX':
            maildir = self._inbox_maildir
        else:
            try:
                maildir = self._layout.get_folder(name, self.delimiter)
            except FileNotFoundError as exc:
                raise KeyError(name) from exc
        if name in self._cache:
            mbx = self._cache[name]
        else:''', '''        if name in self._cache:
            return await self._cache[name].reset()
        if name == 'INBOX':
            maildir = self._inbox_maildir
        else:
            try:
                maildir = self._layout.get_folder(name, self.delimiter)
            except FileNotFoundError as exc:
                raise KeyError(name) from exc
        if name in self._cache:
            mbx = self._cache[name]
        else:''')
V('c14-multiappend-except-exception', 'C14', 'R14.2', SESS,
  '''        except BaseException:
            # MULTIAPPEND is all-or-nothing, undo the messages already added.''',
  '''        except Exception:
            # MULTIAPPEND is all-or-nothing, undo the messages already added.''')
V('c14-multiappend-twin-tuple', 'C14', 'R14.2', SESS,
  '''        except BaseException:
            # MULTIAPPEND is all-or-nothing, undo the messages already added.''',
  '''        except (Exception, asyncio.CancelledError):
            # MULTIAPPEND is all-or-nothing, undo the messages already added.''',
  expect='silent')
V('c15-rename-inside-with', 'C15', 'R15.1', 'pymap/backend/maildir/io.py',
  '''            self.write(tmp)
        os.rename(tmp.name, file_path)''',
  '''            self.write(tmp)
            os.rename(tmp.name, file_path)''')
V('c17-maildir-copy-subdir-only-recent', 'C17', 'R17.8', MAILDIRMBX,
  "        copy_msg.set_subdir('new' if recent else 'cur')\n        async with destination",
  "        if not recent:\n            copy_msg.set_subdir('cur')\n        async with destination")
V('c17-maildir-copy-twin-ifelse', 'C17', 'R17.8', MAILDIRMBX,
  "        copy_msg.set_subdir('new' if recent else 'cur')\n        async with destination",
  "        if recent:\n            copy_msg.set_subdir('new')\n        else:\n            copy_msg.set_subdir('cur')\n        async with destination",
  expect='silent')
V('c06-readline-eof-on-buffer', 'C06', 'R6.10', IMAPINIT,
  '''            line = await self.reader.readline()
            if not line.endswith(b'\\n'):
                raise EOFError()
            buf += line
            lit_plus = self._literal_plus.search(line)''',
  '''            line = await self.reader.readline()
            buf += line
            if not buf.endswith(b'\\n'):
                raise EOFError()
            lit_plus = self._literal_plus.search(line)''')
V('c06-readline-marker-in-buffer', 'C06', 'R6.10', IMAPINIT,
  'lit_plus = self._literal_plus.search(line)',
  'lit_plus = self._literal_plus.search(buf)')
V('c06-sieve-read-data-accumulate', 'C06', 'R6.10', SIEVE,
  '''            line = await self.reader.readline()
            if not line.endswith(b'\\n'):
                raise EOFError()
            data += line''',
  '''            data += await self.reader.readline()
            if not data.endswith(b'\\n'):
                raise EOFError()
            line = data''')
V('c06-readline-twin-empty-test', 'C06', 'R6.10', SIEVE,
  '''            if not line.endswith(b'\\n'):
                raise EOFError()
            data += line''',
  '''            if not line.endswith(b'\\n'):
                raise EOFError('connection closed')
            data.extend(line)''', expect='silent')
FETCHATTR = 'pymap/parsing/specials/fetchattr.py'
V('c18-header-names-wire-spelling', 'C18', 'R18.8', FETCHATTR,
  '[hdr.value for hdr in header_list_p.get_as(AString)])',
  '[bytes(hdr) for hdr in header_list_p.get_as(AString)])')
ASTRING = 'pymap/parsing/specials/astring.py'
V('c07-astring-fallback-quoted', 'C07', 'R7.3', ASTRING, '', '',
  edits=[(ASTRING, 'self._raw = bytes(String.build(self.value))',
          'self._raw = bytes(QuotedString(self.value))'),
         (ASTRING, 'from ..primitives import String\n',
          'from ..primitives import String, QuotedString\n')])
V('c07-header-echo-verbatim', 'C07', 'R7.9', FETCHATTR,
  '''                    parts.append(bytes(List(
                        [AString(hdr) for hdr in sorted(headers)])))''',
  '''                    parts.append(bytes(List(headers, sort=True)))''')
SEARCHPY = 'pymap/search.py'
V('c06-search-unescaped-pattern', 'C06', 'R6.11', SEARCHPY,
  'escaped_substr = re.escape(substr)', 'escaped_substr = substr')
V('c06-contains-unescaped-pattern', 'C06', 'R6.11', 'pymap/message.py',
  'pattern = re.compile(re.escape(value), re.I)',
  'pattern = re.compile(value, re.I)')
V('c06-search-twin-inline-escape', 'C06', 'R6.11', SEARCHPY,
  '''        escaped_substr = re.escape(substr)
        return re.search(escaped_substr, data, re_flags) is not None''',
  '''        return re.search(re.escape(substr), data, re_flags) is not None''',
  expect='silent')
V('c06-string-build-strict-utf8', 'C06', 'R6.7', PRIM,
  "ascii_ = bytes(value, 'utf-8', 'replace')",
  "ascii_ = value.encode('utf-8')")
V('c07-load-hook-skip-expunged', 'C07', 'R7.10', FETCHPY,
  '''        loaded_msg = await self.message.load_content(self.requirement)
        with self._get_loaded.apply(loaded_msg):
            yield''',
  '''        if self.message.expunged:
            yield
            return
        loaded_msg = await self.message.load_content(self.requirement)
        with self._get_loaded.apply(loaded_msg):
            yield''')
V('c08-dict-mailboxset-shared', 'C08', 'R8.5', DICTMBX,
  '''class MailboxSet(MailboxSetInterface[MailboxData]):
''', '''class MailboxSet(MailboxSetInterface[MailboxData]):

    _shared: dict[str, Any] = {}

    def _remember(self, name: str, mbx: Any) -> None:
        self._shared[name] = mbx
''')
V('c09-mutable-default-roles', 'C09', 'R9.9', 'pymap/backend/dict/__init__.py',
  '''    def __init__(self, name: str, login: Login, token_id: str | None,
                 roles: Set[str]) -> None:''',
  '''    def __init__(self, name: str, login: Login, token_id: str | None,
                 roles: Set[str] = set()) -> None:''')
V('c11-list-folders-bare-prefix', 'C11', 'R11.6', LAYOUT,
  "elif not subdir or elem.startswith(subdir + '.'):",
  "elif not subdir or elem.startswith(subdir):")
V('c17-claim-yield-after-suppress', 'C17', 'R17.9', MAILDIRMBX,
  '''            try:
                os.rename(new_path, cur_path)
            except FileNotFoundError:
                pass
            else:
                yield name.rsplit(self.colon, 1)[0]''',
  '''            try:
                os.rename(new_path, cur_path)
            except FileNotFoundError:
                pass
            yield name.rsplit(self.colon, 1)[0]''')
V('c17-claim-twin-continue', 'C17', 'R17.9', MAILDIRMBX,
  '''            try:
                os.rename(new_path, cur_path)
            except FileNotFoundError:
                pass
            else:
                yield name.rsplit(self.colon, 1)[0]''',
  '''            try:
                os.rename(new_path, cur_path)
            except FileNotFoundError:
                continue
            yield name.rsplit(self.colon, 1)[0]''', expect='silent')
V('c10-update-apply-on-cached', 'C10', 'R10.9', DICTMBX,
  'mode.apply(msg.permanent_flags', 'mode.apply(cached_msg.permanent_flags')
V('c04-get-all-unordered', 'C04', 'R4.5', SEL,
  '''            return [(seq, uid) for seq, uid in enumerate(self._sorted, 1)
                    if uid in all_uids]''',
  '''            return [(self._seqs_cache[uid], uid) for uid in all_uids]''')
V('c03-message-text-reassembled', 'C03', 'R3.1', 'pymap/message.py',
  '''            else:
                return Writeable.empty()
        return msg.body

    @classmethod
    def _get_size_with_lines''', '''            else:
                return Writeable.empty()
        return Writeable.concat((msg.body, ))

    @classmethod
    def _get_size_with_lines''')
V('c16-marks-not-reset-on-failure', 'C16', 'R16.6', STATE,
  '''        try:
            response, selected = await func(cmd)
        except BaseException:
            if self._selected is not None:
                self._selected.discard_marks()
            raise
''', '''        response, selected = await func(cmd)
''')
V('c01-discard-forgets-silenced', 'C01', 'R1.10', SEL,
  '''        self._hide_expunged = False
        self._silenced_flags.clear()
        self._silenced_sflags.clear()
''', '''        self._hide_expunged = False
''')
V('c16-marks-twin-inline-reset', 'C16', 'R16.6', STATE,
  '''            if self._selected is not None:
                self._selected.discard_marks()
            raise''', '''            selected_ = self._selected
            if selected_ is not None:
                selected_.discard_marks()
            raise''', expect='silent')
V('c02-silence-live-flags', 'C02', 'R2.8', SEL,
  '            _, msg_flags = flags_key_map[msg.uid]',
  '            msg_flags = msg.permanent_flags')
V('c02-silence-twin-get', 'C02', 'R2.8', SEL,
  '            _, msg_flags = flags_key_map[msg.uid]',
  '            _uid, msg_flags = self._messages._flags_key_map[msg.uid]',
  expect='silent')
V('c04-maildir-move-keeps-source-record', 'C04', 'R4.6', MAILDIRMBX,
  '''        if destination is not self:
            # The key moves with the file, the old record would become valid
            # again if the message is ever moved back.
            async with UidList.with_write(self._path) as uidl:
                try:
                    uidl.remove(uid)
                except KeyError:
                    pass
''', '')
V('c04-maildir-selfmove-keeps-record', 'C04', 'R4.6', MAILDIRMBX,
  '''            if destination is self:
                uidl.remove(uid)
''', '')
V('c14-maildir-append-no-undo', 'C14', 'R14.5', MAILDIRMBX,
  '''        except BaseException:
            # The message never got a UID, do not leave its file behind.
            async with self.messages_lock.write_lock():
                maildir.discard(key)
            raise
''', '''        except BaseException:
            raise
''')
V('c14-maildir-copy-undo-narrow', 'C14', 'R14.5', MAILDIRMBX,
  '''        except BaseException:
            # The copy never got a UID, do not leave its file behind.''',
  '''        except Exception:
            # The copy never got a UID, do not leave its file behind.''')
V('c11-subs-rstrip-all', 'C11', 'R11.7', 'pymap/backend/maildir/subscriptions.py',
  "self.add(line.rstrip('\\r\\n'))", "self.add(line.rstrip())")
V('c11-subs-no-linebreak-guard', 'C11', 'R11.7', MAILDIRMBX,
  '''        if '\\r' in name or '\\n' in name:
            # the subscriptions file holds one name per line
            raise NotSupportedError('Invalid mailbox name.')
''', '')
V('c06-number-int-unguarded', 'C06', 'R6.2', PRIM,
  '''        try:
            num = int(match.group(0))
        except ValueError as exc:
            raise NotParseable(buf) from exc
        return cls(num), buf[match.end(0):]''',
  '''        return cls(int(match.group(0))), buf[match.end(0):]''')
V('c06-literal-plus-unbounded-digits', 'C06', 'R6.10', IMAPINIT,
  "_literal_plus = re.compile(br'{(\\d{1,20})\\+}\\r?\\n$')",
  "_literal_plus = re.compile(br'{(\\d+)\\+}\\r?\\n$')")
V('c06-literal-plus-twin-10-digits', 'C06', 'R6.10', IMAPINIT,
  "_literal_plus = re.compile(br'{(\\d{1,20})\\+}\\r?\\n$')",
  "_literal_plus = re.compile(br'{(\\d{1,10})\\+}\\r?\\n$')", expect='silent')
V('c06-server-attempt-no-valueerror', 'C06', 'R6.13', IMAPINIT,
  '''            except ValueError as exc:
                # e.g. the response was not valid UTF-8
                raise AuthenticationError('Invalid response.') from exc
''', '')
V('c06-compare-secret-unguarded-prep', 'C06', 'R6.13', 'pymap/user.py',
  '''            try:
                prepared = prepare(value)
            except ValueError:
                return False  # prohibited by the string preparation
            return hash_context.verify(prepared, prepare(password))''',
  '''            return hash_context.verify(prepare(value), prepare(password))''')
FILTERPY = 'pymap/backend/dict/filter.py'
SEARCHKEY = 'pymap/parsing/specials/searchkey.py'
CONC = 'pymap/concurrent.py'
V('c02-bucket-popped-unconditionally', 'C02', 'R2.9', DICTMBX,
  '''        uid_set = data.get(prev_mod_seq, None)
        if uid_set is not None:
            uid_set.discard(uid)
            if not uid_set:
                del data[prev_mod_seq]
                self._mod_seqs_order.remove(prev_mod_seq)''',
  '''        uid_set = data.get(prev_mod_seq, None)
        if uid_set is not None:
            uid_set.discard(uid)
            del data[prev_mod_seq]
            if not uid_set:
                self._mod_seqs_order.remove(prev_mod_seq)''')
V('c02-cleanup-truth-test', 'C02', 'R2.9', MAILDIRMBX,
  '                if info is None:\n                    uidl.remove(rec.uid)',
  '                if not info:\n                    uidl.remove(rec.uid)')
V('c02-cleanup-twin-not-in', 'C02', 'R2.9', MAILDIRMBX,
  '                if info is None:\n                    uidl.remove(rec.uid)',
  '                if key not in keys:\n                    uidl.remove(rec.uid)',
  expect='silent')
V('c03-text-unwraps-without-section', 'C03', 'R3.1', 'pymap/message.py',
  '''        if section:
            if msg.is_rfc822:
                msg = msg.body.nested[0]
            else:
                return Writeable.empty()
        return msg.body''', '''        if msg.is_rfc822:
            msg = msg.body.nested[0]
        elif section:
            return Writeable.empty()
        return msg.body''')
V('c05-close-returns-before-clear', 'C05', 'R5.4', STATE,
  '''        selected = self.selected
        self._selected = None
        if not selected.readonly:
            await self.session.expunge_mailbox(selected)''',
  '''        selected = self.selected
        if selected.readonly:
            return ResponseOk(cmd.tag, cmd.command + b' completed.'), None
        self._selected = None
        await self.session.expunge_mailbox(selected)''')
V('c05-selected-gains-len', 'C05', 'R5.9', SEL,
  '''    @property
    def mailbox_id(self) -> ObjectId:
        """The selected mailbox object ID.''', '''    def __len__(self) -> int:
        return self._messages.exists

    @property
    def mailbox_id(self) -> ObjectId:
        """The selected mailbox object ID.''')
V('c09-authorize-target-roles', 'C09', 'R9.4', 'pymap/backend/dict/__init__.py',
  '''        roles = authenticated.roles
        if authcid != authzid and 'admin' not in roles:''',
  '''        target = await Identity(authzid, self, None, frozenset()).get()
        roles = authenticated.roles | target.roles
        if authcid != authzid and 'admin' not in roles:''')
V('c10-store-skips-empty-set', 'C10', 'R10.3', SESS,
  '''            msg = await mbx.update(uid, cached_msg, permanent_flags, mode)
            if not msg.expunged:''',
  '''            if permanent_flags:
                msg = await mbx.update(uid, cached_msg, permanent_flags, mode)
            else:
                msg = await mbx.get(uid, cached_msg)
            if not msg.expunged:''')
V('c13-searchkey-hash-no-inverse', 'C13', 'R13.8', SEARCHKEY,
  'return hash((self.value, self.filter, self.inverse))',
  'return hash((self.value, self.filter))')
V('c14-append-shielded', 'C14', 'R14.2', SESS,
  'msg = await mbx.append(append_msg, recent=not dest_selected)',
  'msg = await asyncio.shield(mbx.append(append_msg, recent=not dest_selected))',
  edits=[(SESS, 'msg = await mbx.append(append_msg, recent=not dest_selected)',
          'msg = await asyncio.shield(\n                    mbx.append(append_msg, recent=not dest_selected))'),
         (SESS, 'from __future__ import annotations\n',
          'from __future__ import annotations\n\nimport asyncio\n')])
V('c16-predicate-after-overwrite', 'C16', 'R16.1', DICTMBX,
  '''        if wait_on is not None:
            either_event = wait_on.or_event(self._updated)
            if selected.mod_sequence == self._mod_sequences.highest:
                await either_event.wait()
        mod_sequence = selected.mod_sequence
        selected.mod_sequence = self._mod_sequences.highest''',
  '''        mod_sequence = selected.mod_sequence
        selected.mod_sequence = self._mod_sequences.highest
        if wait_on is not None:
            either_event = wait_on.or_event(self._updated)
            if selected.mod_sequence == self._mod_sequences.highest:
                await either_event.wait()''')
V('c19-rename-onto-itself', 'C19', 'R19.4', FILTERPY,
  '        elif after_name in self._filters:',
  '        elif after_name != before_name and after_name in self._filters:')
V('c19-rename-twin-early-return', 'C19', 'R19.4', FILTERPY,
  '''        if before_name not in self._filters:
            raise KeyError(before_name)
        elif after_name in self._filters:''',
  '''        if before_name not in self._filters:
            raise KeyError(before_name)
        elif before_name == after_name:
            return
        elif after_name in self._filters:''', expect='silent')
V('c20-filelock-unlock-in-outer-finally', 'C20', 'R20.4', CONC,
  '''        for delay in self._write_retry_delay:
            await asyncio.sleep(delay)
            if self._try_lock():
                try:
                    yield
                finally:
                    self._unlock()
                break
        else:
            raise TimeoutError()''', '''        try:
            for delay in self._write_retry_delay:
                await asyncio.sleep(delay)
                if self._try_lock():
                    yield
                    break
            else:
                raise TimeoutError()
        finally:
            self._unlock()''')

# ---------------------------------------------------------------- round 4
MODUTF7 = 'pymap/parsing/modutf7.py'
V('c01-select-exists-from-snapshot', 'C01', 'R1.11', STATE,
  'resp.add_untagged(ExistsResponse(messages.exists))',
  'resp.add_untagged(ExistsResponse(mailbox.exists))')
V('c01-select-exists-twin-inline', 'C01', 'R1.11', STATE,
  '''        messages = updates.messages
        resp.add_untagged(FlagsResponse(mailbox.flags))
        resp.add_untagged(ExistsResponse(messages.exists))''',
  '''        resp.add_untagged(FlagsResponse(mailbox.flags))
        resp.add_untagged(ExistsResponse(updates.messages.exists))''',
  expect='silent')
V('c02-discard-marks-clears-pending', 'C02', 'R2.10', SEL,
  '''        self._silenced_sflags.clear()

    def fork(''', '''        self._silenced_sflags.clear()
        self._messages._pending_remove.clear()

    def fork(''')
V('c02-pending-cleared-before-applied', 'C02', 'R2.10', SEL,
  '''        if pending:
            self._pending_remove.update(uids)
        else:''', '''        if pending:
            self._pending_remove.clear()
            self._pending_remove.update(uids)
        else:''')
V('c02-pending-twin-rebind-after-loop', 'C02', 'R2.10', SEL,
  '''                    any_removed = True
            self._pending_remove.clear()''',
  '''                    any_removed = True
            self._pending_remove = set()''', expect='silent')
V('c06-idle-done-pattern-rejects-cr', 'C06', 'R6.14', SELECTCMD,
  r"_pattern = re.compile(br'^(.*?)\r?\n')",
  r"_pattern = re.compile(br'^([^\r\n]*)\r?\n')")
V('c06-idle-done-twin-greedy', 'C06', 'R6.14', SELECTCMD,
  r"_pattern = re.compile(br'^(.*?)\r?\n')",
  r"_pattern = re.compile(br'^([^\n]*)\r?\n')", expect='silent')
V('c06-auth-b64-handler-dropped', 'C06', 'R6.14', IMAP,
  '''                try:
                    resp_dec = b64decode(resp_bytes)
                except binascii.Error as exc:
                    raise AuthenticationError() from exc
                else:
                    responses.append(ChallengeResponse(chal.data, resp_dec))''',
  '''                resp_dec = b64decode(resp_bytes)
                responses.append(ChallengeResponse(chal.data, resp_dec))''')
V('c06-idle-eof-handler-dropped', 'C06', 'R6.14', IMAP,
  '''                except (CancelledError, ConnectionError, EOFError):
                    await self.send_error_disconnect()
                    break''',
  '''                except (CancelledError, ConnectionError):
                    await self.send_error_disconnect()
                    break''')
V('c07-get-size-fast-path', 'C07', 'R7.11', MSGPY,
  '''    def get_size(self, section: Sequence[int] | None = None) -> int:
        try:''',
  '''    def get_size(self, section: Sequence[int] | None = None) -> int:
        if not section:
            return len(self.content)
        try:''')
V('c07-envelope-handler-dropped', 'C07', 'R7.11', MSGPY,
  '''        try:
            return self._get_envelope_structure(self.content)
        except _NoContent:
            return EnvelopeStructure.empty()''',
  '''        return self._get_envelope_structure(self.content)''')
V('c07-get-size-twin-valueerror', 'C07', 'R7.11', MSGPY,
  '''        try:
            msg = self._get_subpart(section)
        except (IndexError, _NoContent):
            return 0
        return len(msg)''',
  '''        try:
            msg = self._get_subpart(section)
        except (IndexError, ValueError):
            return 0
        return len(msg)''', expect='silent')
V('c09-authorize-prepared-compare-local', 'C09', 'R9.4', DICTINIT,
  '''        if authcid != authzid and 'admin' not in roles:
            raise AuthorizationFailure()
        return Identity(authzid, self, None, roles)''',
  '''        prepare = self.config.password_prep
        try:
            same_identity = prepare(authcid) == prepare(authzid)
        except ValueError:
            same_identity = False
        if not same_identity and 'admin' not in roles:
            raise AuthorizationFailure()
        return Identity(authzid, self, None, roles)''')
V('c11-rename-replace-all', 'C11', 'R11.6', LAYOUT,
  'dest_elem = dest_subdir + elem[len(subdir):]',
  'dest_elem = elem.replace(subdir, dest_subdir)')
V('c11-rename-twin-removeprefix', 'C11', 'R11.6', LAYOUT,
  'dest_elem = dest_subdir + elem[len(subdir):]',
  'dest_elem = dest_subdir + elem.removeprefix(subdir)', expect='silent')
V('c13-contains-returns-first-text-part', 'C13', 'R13.9', MSGPY,
  '''                if pattern.search(bytes(part.body)) is not None:
                    return True
        return False''',
  '''                return pattern.search(bytes(part.body)) is not None
        return False''')
V('c13-contains-twin-any', 'C13', 'R13.9', MSGPY,
  '''        for part in content.walk():
            if pattern.search(bytes(part.header)) is not None:
                return True
            elif part.body.content_type.maintype == 'text':
                if pattern.search(bytes(part.body)) is not None:
                    return True
        return False''',
  '''        for part in content.walk():
            if pattern.search(bytes(part.header)) is not None:
                return True
            if part.body.content_type.maintype != 'text':
                continue
            if pattern.search(bytes(part.body)) is not None:
                return True
        return False''', expect='silent')
V('c14-undo-only-if-more-than-one', 'C14', 'R14.2', SESS,
  '''            await mbx.delete(uids)
            raise''', '''            if len(uids) > 1:
                await mbx.delete(uids)
            raise''')
V('c14-undo-twin-if-any', 'C14', 'R14.2', SESS,
  '''            await mbx.delete(uids)
            raise''', '''            if uids:
                await mbx.delete(uids)
            raise''', expect='silent')
V('c18-revert-utf7-codec', 'C18', 'R18.9', MODUTF7,
  '''    src_b64 = b2a_base64(src.encode('utf-16-be', 'surrogatepass'),
                         newline=False)
    return src_b64.rstrip(b'=').replace(b'/', b',')''',
  '''    src_utf7 = src.encode('utf-7')
    return src_utf7[1:-1].replace(b'/', b',')''')
V('c18-modutf7-strip-eats-payload', 'C18', 'R18.9', MODUTF7,
  "return src_b64.rstrip(b'=').replace(b'/', b',')",
  "return src_b64.strip(b'=+').replace(b'/', b',')")
V('c18-modutf7-no-comma', 'C18', 'R18.9', MODUTF7,
  "return src_b64.rstrip(b'=').replace(b'/', b',')",
  "return src_b64.rstrip(b'=')")
V('c18-modutf7-utf16-le', 'C18', 'R18.9', MODUTF7,
  "src.encode('utf-16-be', 'surrogatepass')",
  "src.encode('utf-16-le', 'surrogatepass')")
V('c18-modutf7-twin-local', 'C18', 'R18.9', MODUTF7,
  '''    src_b64 = b2a_base64(src.encode('utf-16-be', 'surrogatepass'),
                         newline=False)
    return src_b64.rstrip(b'=').replace(b'/', b',')''',
  '''    units = src.encode('utf-16-be', 'surrogatepass')
    payload = b2a_base64(units, newline=False).rstrip(b'=')
    return payload.replace(b'/', b',')''', expect='silent')

# ---------------------------------------------------------------- stdlib facts
PARSEDPY = 'pymap/mime/parsed.py'
RESPFETCH = 'pymap/parsing/response/fetch.py'
V('c06-revert-header-registry-handler', 'C06', 'R6.15', PARSEDPY,
  '''            try:
                header = cls._registry(hdr_tuple[0], hdr_tuple[1])
            except Exception:
                # the email package raises assorted exceptions on malformed
                # values, e.g. an RFC 2231 parameter that cannot be decoded
                # with its charset, treat the header value as not present
                continue
            yield header''',
  '''            yield cls._registry(hdr_tuple[0], hdr_tuple[1])''')
V('c06-header-registry-valueerror-only', 'C06', 'R6.15', PARSEDPY,
  '            except Exception:\n                # the email package',
  '            except ValueError:\n                # the email package')
V('c06-header-registry-twin-baseexception', 'C06', 'R6.15', PARSEDPY,
  '            except Exception:\n                # the email package',
  '            except (Exception, RecursionError):\n                # the email package',
  expect='silent')
V('c06-revert-sender-address', 'C06', 'R6.16', RESPFETCH,
  '''            addresses.extend(header.addresses)''',
  '''            if isinstance(header, SingleAddressHeader):
                addresses.append(header.address)
            else:
                addresses.extend(header.addresses)''')
V('c06-sender-address-twin-handled', 'C06', 'R6.16', RESPFETCH,
  '''            addresses.extend(header.addresses)''',
  '''            if isinstance(header, SingleAddressHeader):
                try:
                    addresses.append(header.address)
                except ValueError:
                    addresses.extend(header.addresses)
            else:
                addresses.extend(header.addresses)''', expect='silent')
V('c07-revert-empty-address-list', 'C07', 'R7.12', RESPFETCH,
  '''        addresses: list[Address] = []
        for header in self.headers:
            addresses.extend(header.addresses)
        if addresses:
            return List(''',
  '''        if self.headers:
            addresses: list[Address] = []
            for header in self.headers:
                addresses.extend(header.addresses)
            return List(''')
V('c07-params-list-unguarded', 'C07', 'R7.12', RESPFETCH,
  '''        if self.params:
            values = [(String.build(key), String.build(value))
                      for key, value in self.params.items()]
            return List(chain.from_iterable(values))
        else:
            return Nil()''',
  '''        if self.params is not None:
            values = [(String.build(key), String.build(value))
                      for key, value in self.params.items()]
            return List(chain.from_iterable(values))
        else:
            return Nil()''')
V('c07-address-list-twin-early-nil', 'C07', 'R7.12', RESPFETCH,
  '''        if addresses:
            return List([self._parse(address)
                         for address in addresses])
        else:
            return Nil()''',
  '''        if not addresses:
            return Nil()
        return List([self._parse(address)
                     for address in addresses])''', expect='silent')
V('c07-revert-disposition-string', 'C07', 'R7.13', RESPFETCH,
  '''                     _ParamsList(self.content_type_params),
                     _Disposition(self.content_disposition),''',
  '''                     _ParamsList(self.content_type_params),
                     String.build(self.content_disposition),''')
V('c07-disposition-writer-bare-string', 'C07', 'R7.13', RESPFETCH,
  '''            return List([String.build(self.header.content_disposition),
                         _ParamsList(self.header.params)])''',
  '''            return String.build(self.header.content_disposition)''')
V('c07-revert-empty-multipart', 'C07', 'R7.14', MSGPY,
  "        if maintype == 'multipart' and msg.body.has_nested:",
  "        if maintype == 'multipart':")
V('c07-empty-multipart-twin-nested', 'C07', 'R7.14', MSGPY,
  "        if maintype == 'multipart' and msg.body.has_nested:",
  "        if maintype == 'multipart' and msg.body.nested:", expect='silent')
V('c07-address-three-fields', 'C07', 'R7.15', RESPFETCH,
  'return List([realname, Nil(), localpart, domain])',
  'return List([realname, localpart, domain])')
V('c07-envelope-drops-bcc', 'C07', 'R7.15', RESPFETCH,
  '''                     self._addresses(self.cc),
                     self._addresses(self.bcc),''',
  '''                     self._addresses(self.cc),''')
V('c07-text-lines-as-string', 'C07', 'R7.15', RESPFETCH,
  '''                     Number(self.size), Number(self.lines)])''',
  '''                     Number(self.size), String.build(self.lines)])''')
V('c07-encoding-without-fallback', 'C07', 'R7.15', RESPFETCH,
  '''                     String.build(self.content_transfer_encoding,
                                  fallback=b'7BIT'),
                     Number(self.size)])''',
  '''                     String.build(self.content_transfer_encoding),
                     Number(self.size)])''')
V('c07-envelope-twin-local-fields', 'C07', 'R7.15', RESPFETCH,
  '''        return List([datetime,
                     String.build(self.subject),''',
  '''        subject = String.build(self.subject)
        return List([datetime,
                     subject,''', expect='silent')
RESPINIT2 = 'pymap/parsing/response/__init__.py'
RESPSPEC2 = 'pymap/parsing/response/specials.py'
V('c01-revert-merge-barrier', 'C01', 'R1.12', RESPINIT2,
  '''                if resp.renumbers:
                    # the same sequence number is another message from here
                    self._mergeable.clear()
''', '')
V('c01-expunge-does-not-renumber', 'C01', 'R1.12', RESPSPEC2,
  '''    renumbers = True

    def __init__(self, seq: int) -> None:''',
  '''    def __init__(self, seq: int) -> None:''')
V('c01-merge-barrier-twin-isinstance', 'C01', 'R1.12', RESPINIT2,
  '''                if resp.renumbers:
                    # the same sequence number is another message from here
                    self._mergeable.clear()
''', '''                if resp.renumbers:
                    self._mergeable = {}
''', expect='silent')
V('c07-revert-empty-text-fallback', 'C07', 'R7.16', IMAP,
  '''                    resp = ResponseBad(cmd.tag,
                                       msg or b'Authentication failed.')''',
  '''                    resp = ResponseBad(cmd.tag, msg)''')
V('c07-empty-constant-text', 'C07', 'R7.16', IMAP,
  "resp = ResponseNo(cmd.tag, b'Operation timed out.',",
  "resp = ResponseNo(cmd.tag, b'',")
V('c07-text-twin-local-fallback', 'C07', 'R7.16', IMAP,
  '''                    msg = bytes(str(exc), 'utf-8', 'surrogateescape')
                    resp = ResponseBad(cmd.tag,
                                       msg or b'Authentication failed.')''',
  '''                    msg = bytes(str(exc), 'utf-8', 'surrogateescape')
                    if not msg:
                        msg = b'Authentication failed.'
                    resp = ResponseBad(cmd.tag, msg)''', expect='silent')
THREADS = 'pymap/threads.py'
V('c06-revert-threadkey-pattern', 'C06', 'R6.18', THREADS,
  "_pattern = re.compile(r'<[^<>]*>')", "_pattern = re.compile(r'<[^>]*>')")
V('c06-threadkey-twin-plus', 'C06', 'R6.18', THREADS,
  "_pattern = re.compile(r'<[^<>]*>')", "_pattern = re.compile(r'<[^<>]+>')",
  expect='silent')
V('c17-revert-append-recent', 'C17', 'R17.11', SESS,
  '''                append_msg = replace(
                    append_msg, flag_set=append_msg.flag_set - {Recent})
''', '')
V('c17-append-recent-twin-permanent', 'C17', 'R17.11', SESS,
  '''                append_msg = replace(
                    append_msg, flag_set=append_msg.flag_set - {Recent})
''', '''                append_msg = replace(
                    append_msg,
                    flag_set=PermanentFlags(mbx.permanent_flags)
                    & append_msg.flag_set)
''', expect='silent')

"""L1: statement-level control-flow graph with normal / exceptional edges,
finally and with-exit inlining on return/break/continue, suspension events,
dominators, post-dominators and path queries.

Edge labels:
  n  normal fall-through          t / f  branch taken / not taken
  e  explicit ``raise``           x  implicit exception inside a ``try`` body
                                     or at a suspension point (cancellation)
The *effect* of a statement lives on its normal out-edges."""
from __future__ import annotations

import ast
from collections.abc import Callable, Iterable, Iterator

__all__ = ['CFG', 'Node', 'walk_local', 'has_suspension', 'NORMAL', 'ALL']

NORMAL = frozenset('ntf')
ALL = frozenset('ntfex')

_FUNCS = (ast.FunctionDef, ast.AsyncFunctionDef, ast.Lambda, ast.ClassDef)


def walk_local(node: ast.AST, *, into_first: bool = True) -> Iterator[ast.AST]:
    """ast.walk that does not descend into nested function/class bodies."""
    stack = [node]
    first = True
    while stack:
        n = stack.pop()
        if isinstance(n, _FUNCS) and not (first and into_first):
            first = False
            yield n
            continue
        first = False
        yield n
        stack.extend(reversed(list(ast.iter_child_nodes(n))))


def has_suspension(node: ast.AST | None) -> bool:
    if node is None:
        return False
    for n in walk_local(node, into_first=False):
        if isinstance(n, (ast.Await, ast.Yield, ast.YieldFrom)):
            return True
        if isinstance(n, ast.comprehension) and n.is_async:
            return True
    return False


class Node:
    __slots__ = ('id', 'kind', 'stmt', 'succ', 'suspends', 'copy_of')

    def __init__(self, id: int, kind: str, stmt: ast.AST | None,
                 suspends: bool = False) -> None:
        self.id = id
        self.kind = kind
        self.stmt = stmt
        self.succ: list[tuple[Node, str]] = []
        self.suspends = suspends
        self.copy_of: Node | None = None

    @property
    def lineno(self) -> int:
        return getattr(self.stmt, 'lineno', 0)

    def exprs(self) -> list[ast.AST]:
        """The syntax evaluated *at* this node (not the nested bodies)."""
        s = self.stmt
        if s is None:
            return []
        k = self.kind
        if k == 'test':
            if isinstance(s, ast.Match):
                return [s.subject]
            return [s.test]                       # type: ignore[attr-defined]
        if k == 'for_iter':
            return [s.iter, s.target]             # type: ignore[attr-defined]
        if k == 'with_enter':
            out: list[ast.AST] = []
            for i in s.items:                     # type: ignore[attr-defined]
                out.append(i.context_expr)
                if i.optional_vars is not None:
                    out.append(i.optional_vars)
            return out
        if k in ('with_exit', 'handler', 'finally', 'join', 'entry', 'exit',
                 'raise'):
            return []
        if isinstance(s, _FUNCS):
            return []
        return [s]

    def walk(self) -> Iterator[ast.AST]:
        for e in self.exprs():
            yield from walk_local(e, into_first=False)

    def calls(self) -> Iterator[ast.Call]:
        for n in self.walk():
            if isinstance(n, ast.Call):
                yield n

    def __repr__(self) -> str:
        return f'<{self.id}:{self.kind}@{self.lineno}>'


class CFG:

    def __init__(self, fn: ast.FunctionDef | ast.AsyncFunctionDef) -> None:
        self.fn = fn
        self.is_async = isinstance(fn, ast.AsyncFunctionDef)
        self.nodes: list[Node] = []
        self.entry = self._new('entry', None)
        self.exit = self._new('exit', None)
        self.raise_exit = self._new('raise', None)
        self._ctx: list[tuple] = []
        ends = self._seq(fn.body, [(self.entry, 'n')])
        self._link(ends, self.exit)
        self._preds: dict[Node, list[tuple[Node, str]]] | None = None

    # -- construction ---------------------------------------------------
    def _new(self, kind: str, stmt: ast.AST | None,
             suspends: bool = False) -> Node:
        n = Node(len(self.nodes), kind, stmt, suspends)
        self.nodes.append(n)
        return n

    @staticmethod
    def _link(ends: list[tuple[Node, str]], node: Node) -> None:
        for p, lab in ends:
            p.succ.append((node, lab))

    def _seq(self, stmts: list[ast.stmt], ends: list[tuple[Node, str]]) \
            -> list[tuple[Node, str]]:
        for s in stmts:
            ends = self._stmt(s, ends)
        return ends

    def _exc_targets(self, upto: int | None = None) -> list[Node]:
        """Where an exception raised in the current context goes."""
        out: list[Node] = []
        i = len(self._ctx) if upto is None else upto
        while i > 0:
            i -= 1
            fr = self._ctx[i]
            if fr[0] == 'with':
                node = fr[3].get('exc')
                if node is None:
                    node = self._new('with_exit', fr[1], suspends=fr[2])
                    fr[3]['exc'] = node
                    for t in self._exc_targets(i):
                        node.succ.append((t, 'x'))
                out.append(node)
                return out
            if fr[0] == 'try':
                out.extend(fr[1])
                if fr[2]:           # catches everything
                    return out
                if fr[3] is not None:
                    out.append(fr[3])
                    return out
            elif fr[0] == 'fin':
                out.append(fr[1])
                return out
        out.append(self.raise_exit)
        return out

    def _maybe_exc(self, n: Node) -> None:
        in_try = any(fr[0] in ('try', 'fin') for fr in self._ctx)
        if in_try or n.suspends:
            for t in self._exc_targets():
                n.succ.append((t, 'x'))

    def _unwind(self, ends: list[tuple[Node, str]], stop: int) \
            -> list[tuple[Node, str]]:
        """Inline with-exits and finally bodies from the innermost frame out
        to (not including) frame index ``stop``."""
        saved = self._ctx
        i = len(saved)
        while i > stop:
            i -= 1
            fr = saved[i]
            if fr[0] == 'with':
                self._ctx = saved[:i]
                ex = self._new('with_exit', fr[1], suspends=fr[2])
                self._link(ends, ex)
                self._maybe_exc(ex)
                ends = [(ex, 'n')]
            elif fr[0] in ('try', 'fin') and fr[-1] is not None and \
                    fr[-1].finalbody:
                # a 'try' frame is followed by no separate 'fin' frame
                self._ctx = saved[:i]
                fnode = self._new('finally', fr[-1])
                self._link(ends, fnode)
                ends = self._seq(fr[-1].finalbody, [(fnode, 'n')])
        self._ctx = saved
        return ends

    def _stmt(self, s: ast.stmt, ends: list[tuple[Node, str]]) \
            -> list[tuple[Node, str]]:
        if isinstance(s, ast.If):
            t = self._new('test', s, has_suspension(s.test))
            self._link(ends, t)
            self._maybe_exc(t)
            a = self._seq(s.body, [(t, 't')])
            b = self._seq(s.orelse, [(t, 'f')]) if s.orelse else [(t, 'f')]
            return a + b
        if isinstance(s, ast.While):
            t = self._new('test', s, has_suspension(s.test))
            self._link(ends, t)
            self._maybe_exc(t)
            brk = self._new('join', s)
            self._ctx.append(('loop', t, brk))
            body_end = self._seq(s.body, [(t, 't')])
            self._ctx.pop()
            self._link(body_end, t)
            outs: list[tuple[Node, str]] = [(brk, 'n')]
            const_true = isinstance(s.test, ast.Constant) and \
                bool(s.test.value)
            if not const_true:
                outs += self._seq(s.orelse, [(t, 'f')]) if s.orelse \
                    else [(t, 'f')]
            return outs
        if isinstance(s, (ast.For, ast.AsyncFor)):
            it = self._new('for_iter', s, isinstance(s, ast.AsyncFor)
                           or has_suspension(s.iter))
            self._link(ends, it)
            self._maybe_exc(it)
            brk = self._new('join', s)
            self._ctx.append(('loop', it, brk))
            body_end = self._seq(s.body, [(it, 't')])
            self._ctx.pop()
            self._link(body_end, it)
            e = self._seq(s.orelse, [(it, 'f')]) if s.orelse else [(it, 'f')]
            return [(brk, 'n')] + e
        if isinstance(s, (ast.With, ast.AsyncWith)):
            is_async = isinstance(s, ast.AsyncWith)
            ent = self._new('with_enter', s, is_async or any(
                has_suspension(i.context_expr) for i in s.items))
            self._link(ends, ent)
            self._maybe_exc(ent)
            self._ctx.append(('with', s, is_async, {}))
            body_end = self._seq(s.body, [(ent, 'n')])
            self._ctx.pop()
            ex = self._new('with_exit', s, is_async)
            self._link(body_end, ex)
            self._maybe_exc(ex)
            return [(ex, 'n')]
        if isinstance(s, (ast.Try, getattr(ast, 'TryStar', ast.Try))):
            handlers = [self._new('handler', h) for h in s.handlers]
            fin_exc = self._new('finally', s) if s.finalbody else None
            catches_all = any(self._catches_all(h) for h in s.handlers)
            self._ctx.append(('try', handlers, catches_all, fin_exc, s))
            body_end = self._seq(s.body, ends)
            self._ctx.pop()
            # else-suite and handlers: exceptions go to the finally / outward
            if fin_exc is not None:
                self._ctx.append(('fin', fin_exc, s))
            else_end = self._seq(s.orelse, body_end) if s.orelse else body_end
            h_ends: list[tuple[Node, str]] = []
            for h, hn in zip(s.handlers, handlers):
                h_ends += self._seq(h.body, [(hn, 'n')])
            if fin_exc is not None:
                self._ctx.pop()
            outs = else_end + h_ends
            if s.finalbody:
                fn_ = self._new('finally', s)
                self._link(outs, fn_)
                outs = self._seq(s.finalbody, [(fn_, 'n')])
                assert fin_exc is not None
                ex_end = self._seq(s.finalbody, [(fin_exc, 'n')])
                for t in self._exc_targets():
                    for n, _ in ex_end:
                        n.succ.append((t, 'x'))
            return outs
        if isinstance(s, ast.Return):
            n = self._new('stmt', s, has_suspension(s))
            self._link(ends, n)
            self._maybe_exc(n)
            out = self._unwind([(n, 'n')], 0)
            self._link(out, self.exit)
            return []
        if isinstance(s, ast.Raise):
            n = self._new('stmt', s, has_suspension(s))
            self._link(ends, n)
            for t in self._exc_targets():
                n.succ.append((t, 'e'))
            return []
        if isinstance(s, (ast.Break, ast.Continue)):
            n = self._new('stmt', s)
            self._link(ends, n)
            li = max(i for i, fr in enumerate(self._ctx) if fr[0] == 'loop')
            out = self._unwind([(n, 'n')], li + 1)
            tgt = self._ctx[li][2] if isinstance(s, ast.Break) \
                else self._ctx[li][1]
            self._link(out, tgt)
            return []
        if isinstance(s, ast.Match):
            t = self._new('test', s, has_suspension(s.subject))
            self._link(ends, t)
            self._maybe_exc(t)
            outs = []
            irrefutable = False
            for case in s.cases:
                outs += self._seq(case.body, [(t, 't')])
                if isinstance(case.pattern, ast.MatchAs) and \
                        case.pattern.pattern is None and case.guard is None:
                    irrefutable = True
            if not irrefutable:
                outs.append((t, 'f'))
            return outs
        if isinstance(s, ast.Assert):
            n = self._new('stmt', s, has_suspension(s))
            self._link(ends, n)
            self._maybe_exc(n)
            return [(n, 'n')]
        n = self._new('stmt', s, has_suspension(s)
                      if not isinstance(s, _FUNCS) else False)
        self._link(ends, n)
        self._maybe_exc(n)
        return [(n, 'n')]

    @staticmethod
    def _catches_all(h: ast.ExceptHandler) -> bool:
        return h.type is None or (isinstance(h.type, ast.Name)
                                  and h.type.id == 'BaseException')

    # -- queries --------------------------------------------------------
    def preds(self) -> dict[Node, list[tuple[Node, str]]]:
        if self._preds is None:
            pm: dict[Node, list[tuple[Node, str]]] = \
                {n: [] for n in self.nodes}
            for n in self.nodes:
                for m, lab in n.succ:
                    pm[m].append((n, lab))
            self._preds = pm
        return self._preds

    def reach(self, starts: Iterable[Node], *, avoid: Iterable[Node] = (),
              labels: frozenset[str] = ALL,
              first_labels: frozenset[str] | None = NORMAL,
              include_starts: bool = False,
              skip_edges: Iterable[tuple[Node, str]] = ()) -> set[Node]:
        """Nodes reachable from the out-edges of ``starts``.  The first step
        leaves through ``first_labels`` (default: the normal edges, because a
        statement's effect lives on its normal out-edge)."""
        avoid = set(avoid)
        seen: set[Node] = set()
        stack: list[Node] = []
        fl = labels if first_labels is None else first_labels
        starts = list(starts)
        skip = set(skip_edges)
        for s in starts:
            for m, lab in s.succ:
                if lab in fl and (s, lab) not in skip:
                    stack.append(m)
        while stack:
            n = stack.pop()
            if n in seen or n in avoid:
                continue
            seen.add(n)
            for m, lab in n.succ:
                if lab in labels and (n, lab) not in skip:
                    stack.append(m)
        if include_starts:
            seen |= set(starts)
        return seen

    def reach_back(self, targets: Iterable[Node], *,
                   labels: frozenset[str] = ALL,
                   avoid: Iterable[Node] = ()) -> set[Node]:
        pm = self.preds()
        avoid = set(avoid)
        seen: set[Node] = set()
        stack = list(targets)
        while stack:
            x = stack.pop()
            for p, lab in pm[x]:
                if lab in labels and p not in seen and p not in avoid:
                    seen.add(p)
                    stack.append(p)
        return seen

    def live(self, labels: frozenset[str] = ALL) -> set[Node]:
        return self.reach([self.entry], labels=labels, first_labels=labels) \
            | {self.entry}

    def dominators(self, labels: frozenset[str] = ALL) \
            -> dict[Node, set[Node]]:
        """dom[n] = nodes on every path entry -> n (over the reachable
        subgraph only)."""
        live = self.live(labels)
        order = [n for n in self.nodes if n in live]
        pm = self.preds()
        dom: dict[Node, set[Node]] = {n: set(order) for n in order}
        dom[self.entry] = {self.entry}
        changed = True
        while changed:
            changed = False
            for n in order:
                if n is self.entry:
                    continue
                ps = [p for p, lab in pm[n] if lab in labels and p in live]
                new = set.intersection(*[dom[p] for p in ps]) if ps else set()
                new = new | {n}
                if new != dom[n]:
                    dom[n] = new
                    changed = True
        for n in self.nodes:
            dom.setdefault(n, set())
        return dom

    def dominated_by(self, n: Node, guards: Iterable[Node],
                     labels: frozenset[str] = ALL) -> bool:
        """Every path entry -> n passes through one of ``guards`` (set form:
        n unreachable from entry when the guards are removed)."""
        guards = set(guards)
        if n in guards:
            return True
        if self.entry in guards:
            return True
        r = self.reach([self.entry], avoid=guards, labels=labels,
                       first_labels=labels)
        return n not in r

    def always_followed_by(self, n: Node, targets: Iterable[Node],
                           exits: Iterable[Node] | None = None,
                           labels: frozenset[str] = NORMAL,
                           skip_edges: Iterable[tuple[Node, str]] = ()) \
            -> bool:
        """Every path from n's normal out-edges to an exit passes a target."""
        targets = set(targets)
        ex = set(exits) if exits is not None else {self.exit}
        r = self.reach([n], avoid=targets, labels=labels,
                       skip_edges=skip_edges)
        return not (r & ex)

    def between(self, a: Iterable[Node], b: Iterable[Node],
                labels: frozenset[str] = ALL) -> set[Node]:
        """Nodes strictly on some path from a's normal out-edges to b."""
        bs = set(b)
        fwd = self.reach(a, labels=labels)
        back = self.reach_back(bs, labels=labels)
        return (fwd & back) - bs

    def find(self, pred: Callable[[Node], bool]) -> list[Node]:
        live = self.live()
        return [n for n in self.nodes if n.stmt is not None and n in live
                and n.kind in ('stmt', 'test', 'for_iter', 'with_enter')
                and pred(n)]

    def stmt_nodes(self) -> list[Node]:
        return self.find(lambda n: True)

    def nodes_of(self, stmt: ast.AST) -> list[Node]:
        return [n for n in self.nodes if n.stmt is stmt
                and n.kind in ('stmt', 'test', 'for_iter', 'with_enter')]

    def node_containing(self, sub: ast.AST) -> list[Node]:
        out = []
        for n in self.nodes:
            if n.kind in ('stmt', 'test', 'for_iter', 'with_enter'):
                for e in n.exprs():
                    if any(x is sub for x in walk_local(e, into_first=False)):
                        out.append(n)
                        break
        return out

    def branch_edges(self, test: Node) -> dict[str, list[Node]]:
        out: dict[str, list[Node]] = {'t': [], 'f': []}
        for m, lab in test.succ:
            if lab in out:
                out[lab].append(m)
        return out

    def controlled_by(self, n: Node, test: Node, branch: str,
                      labels: frozenset[str] = ALL) -> bool:
        """n is reachable only through the given branch of ``test``: removing
        that branch's edge makes n unreachable from entry."""
        other = [(m, lab) for m, lab in test.succ
                 if not (lab == branch)]
        saved = test.succ
        test.succ = other
        self._preds = None
        try:
            r = self.reach([self.entry], labels=labels, first_labels=labels)
        finally:
            test.succ = saved
            self._preds = None
        return n not in r and n is not test

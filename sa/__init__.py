"""Static-analysis framework deciding structural clauses of the pymap
properties C01-C20.  See /verif/DESIGN.md.  Nothing here imports pymap."""
